module verif

go 1.26.0

require golang.org/x/tools v0.50.0

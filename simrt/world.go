// Package simrt is the simulation runtime that /verif/cmd/instrument links into a scratch copy of
// semihalev/twig. It owns every source of nondeterminism the instrumenter puts behind a seam:
// sync.Pool recycling, goroutine interleaving, map iteration order, the wall clock, the file system,
// math/rand and internal size knobs.
//
// With no world installed (W == nil) every seam is a pass-through to the real primitive, so the
// rewritten package behaves exactly like the original (used by the fidelity self-test).
//
// Discipline for -race builds: all simulator state is touched only from //go:norace functions that
// avoid runtime helpers which instrument themselves (maps, append-with-growth), so the Go race
// detector sees nothing of the simulator and reports exactly the program's own unordered accesses.
package simrt

import "os"

// Stat indexes the per-run counters of what actually fired.
const (
	StPoolGet = iota
	StPoolNew
	StPoolReuse // Get returned a previously Put object
	StPoolPut
	StPoolDrop       // Put dropped by policy
	StPoolGC         // free lists cleared by gc fault
	StPoolCrossOwner // object reused by a different task than the one that released it
	StPoolDoublePut
	StKeysCalls
	StKeysPermuted // Keys/MapKeys returned an order different from sorted (len>=2)
	StNowCalls
	StFSOps
	StFSFaults
	StYield
	StPreempt
	StLockSpin
	StKnobOverride
	StRand
	StTaskSwitchForced
	StAddrGC    // forced collections by the address seam
	StAddrReuse // a new object took over the simulated address of a dead one
	NStat
)

// StatNames gives printable names for the counters.
var StatNames = [NStat]string{
	"pool_get", "pool_new", "pool_reuse", "pool_put", "pool_drop", "pool_gc", "pool_cross_owner",
	"pool_double_put", "keys_calls", "keys_permuted", "now_calls", "fs_ops", "fs_faults", "yield",
	"preempt", "lock_spin", "knob_override", "rand", "task_switch_forced", "addr_gc", "addr_reuse",
}

// Pool policies.
const (
	PoolFresh  = iota // always New, drop every Put (also the pristine-oracle domain)
	PoolLIFO          // hand back the most recently released object
	PoolFIFO          // hand back the oldest released object
	PoolRandom        // hand back a random released object, or New
)

// Map order modes.
const (
	OrderSorted = iota
	OrderReverse
	OrderRotate  // sorted rotated by MapRot
	OrderShuffle // fresh seeded shuffle per call
	OrderSwap    // sorted with elements MapRot and MapRot+1 swapped
	OrderNatural // Go's own order (not replayable; fidelity test only)
)

// SchedEntry is one explicit scheduling decision: at yield step Step run task To.
type SchedEntry struct {
	Step int64 `json:"step"`
	To   int   `json:"to"`
}

// Config is everything that, with the code, determines a run.
type Config struct {
	Seed         uint64
	PoolPolicy   int
	PoolDropPct  int // 0..100: probability (percent) that a Put is dropped
	MapOrder     int
	MapRot       int
	ClockStart   int64 // ns since epoch
	ClockStep    int64 // ns added by every Now()
	Knobs        map[string]int
	PreemptDen   int          // preempt at a yield with probability 1/PreemptDen (0 = never)
	PCTSteps     []int64      // if non-empty: preempt exactly at these yield steps (target random)
	Schedule     []SchedEntry // if Explicit: take exactly these decisions
	Explicit     bool
	Trace        bool // keep a readable trace of choices (bounded)
	MaxSteps     int64
	AddrReusePct int // S8: percent chance that a newly seen object reuses a dead object's simulated address (0 = 60)
}

// World is one simulated execution environment.
type World struct {
	cfg  Config
	rng  [4]uint64
	hash uint64
	nev  uint64
	Stat [NStat]int64

	now int64

	pristine int // >0: pool domain "pristine" (always New / drop Put), keys sorted

	trace  []TraceEntry
	ntrace int

	sched sched
	fs    simFS
	addr  addrTab

	pooled  ptrSet // objects currently released to a pool (incl. dropped ones) and not handed out again
	keep    []interface{}
	nkeep   int
	poolGen uint64

	// FSHook, if set, is called before every file-system operation; a non-nil error is returned
	// to the caller instead of performing the operation. It may also mutate the FS ("other process").
	FSHook func(op, path string) error
	// YieldHook, if set, is called at every yield point taken while the scheduler is inactive.
	Aborted string
}

// TraceEntry is one recorded choice.
type TraceEntry struct {
	Label string
	N     int
	V     int
}

// W is the installed world; nil means pass-through.
var W *World

// CanonicalEnv, when W == nil, makes Keys/MapKeys sorted and pools LIFO without a world
// (set from the environment variable SIMRT_CANONICAL=1; fidelity self-test only).
var canonical = false

//go:norace
func splitmix(x *uint64) uint64 {
	*x += 0x9e3779b97f4a7c15
	z := *x
	z = (z ^ (z >> 30)) * 0xbf58476d1ce4e5b9
	z = (z ^ (z >> 27)) * 0x94d049bb133111eb
	return z ^ (z >> 31)
}

// Mix derives a sub-seed from a seed and a list of integers.
//
//go:norace
func Mix(seed uint64, xs ...uint64) uint64 {
	s := seed
	r := splitmix(&s)
	for _, x := range xs {
		s ^= x * 0x9e3779b97f4a7c15
		r ^= splitmix(&s)
	}
	return r
}

// Begin installs a fresh world. All pools known so far are emptied.
func Begin(cfg Config) *World {
	w := &World{cfg: cfg}
	s := cfg.Seed
	for i := range w.rng {
		w.rng[i] = splitmix(&s)
	}
	w.hash = 0xcbf29ce484222325
	w.now = cfg.ClockStart
	if cfg.Trace {
		w.trace = make([]TraceEntry, 4096)
	}
	if w.cfg.MaxSteps == 0 {
		w.cfg.MaxSteps = 5_000_000
	}
	w.pooled.init(1 << 12)
	w.keep = make([]interface{}, 1<<12)
	w.fs.init()
	w.sched.init()
	resetPools()
	W = w
	return w
}

// End removes the world and empties the pools.
func End() {
	W = nil
	resetPools()
}

//go:norace
func (w *World) next() uint64 {
	s := &w.rng
	result := rotl(s[1]*5, 7) * 9
	t := s[1] << 17
	s[2] ^= s[0]
	s[3] ^= s[1]
	s[1] ^= s[2]
	s[0] ^= s[3]
	s[2] ^= t
	s[3] = rotl(s[3], 45)
	return result
}

//go:norace
func rotl(x uint64, k uint) uint64 { return (x << k) | (x >> (64 - k)) }

// Choose draws an integer in [0,n) for the decision named label and records it.
//
//go:norace
func (w *World) Choose(n int, label string) int {
	v := 0
	if n > 1 {
		v = int(w.next() % uint64(n))
	}
	w.record(label, n, v)
	return v
}

// Note records an event that is not a choice (it still contributes to the fingerprint).
//
//go:norace
func (w *World) Note(label string, v int) { w.record(label, -1, v) }

//go:norace
func (w *World) record(label string, n, v int) {
	h := w.hash
	for i := 0; i < len(label); i++ {
		h ^= uint64(label[i])
		h *= 0x100000001b3
	}
	h ^= uint64(uint32(n))
	h *= 0x100000001b3
	h ^= uint64(uint32(v))
	h *= 0x100000001b3
	w.hash = h
	w.nev++
	if w.trace != nil && w.ntrace < len(w.trace) {
		w.trace[w.ntrace] = TraceEntry{label, n, v}
		w.ntrace++
	}
}

// Fingerprint is the hash of every choice and event of the run so far.
//
//go:norace
func (w *World) Fingerprint() uint64 { return w.hash }

// Events is the number of recorded events.
//
//go:norace
func (w *World) Events() uint64 { return w.nev }

// Trace returns the recorded choices (only with Config.Trace).
func (w *World) Trace() []TraceEntry { return w.trace[:w.ntrace] }

// NowNS returns the simulated clock without advancing it.
//
//go:norace
func (w *World) NowNS() int64 { return w.now }

// AdvanceClock moves the simulated clock (negative = jump back).
//
//go:norace
func (w *World) AdvanceClock(d int64) { w.now += d; w.record("clock.adv", -1, int(d/1e6)) }

// SetClockStep changes the per-Now() step.
//
//go:norace
func (w *World) SetClockStep(d int64) { w.cfg.ClockStep = d }

// SetMapOrder changes the map-order mode mid-run.
//
//go:norace
func (w *World) SetMapOrder(mode, rot int) { w.cfg.MapOrder = mode; w.cfg.MapRot = rot }

// SetPoolPolicy changes the pool policy mid-run.
//
//go:norace
func (w *World) SetPoolPolicy(policy, dropPct int) {
	w.cfg.PoolPolicy = policy
	w.cfg.PoolDropPct = dropPct
}

// EnterPristine switches to the pristine domain (pools always New and never keep, sorted keys).
// Calls nest.
//
//go:norace
func (w *World) EnterPristine() { w.pristine++ }

// LeavePristine leaves the pristine domain.
//
//go:norace
func (w *World) LeavePristine() { w.pristine-- }

// ---- pointer set (open addressing; no maps so the race detector sees nothing) ----

type ptrSet struct {
	tab []uintptr
	n   int
}

//go:norace
func (s *ptrSet) init(n int) { s.tab = make([]uintptr, n); s.n = 0 }

//go:norace
func (s *ptrSet) slot(p uintptr) int {
	mask := uintptr(len(s.tab) - 1)
	i := (p * 0x9e3779b97f4a7c15 >> 7) & mask
	for {
		q := s.tab[i]
		if q == p || q == 0 {
			return int(i)
		}
		i = (i + 1) & mask
	}
}

//go:norace
func (s *ptrSet) has(p uintptr) bool { return p != 0 && s.tab[s.slot(p)] == p }

//go:norace
func (s *ptrSet) add(p uintptr) {
	if p == 0 {
		return
	}
	if (s.n+1)*2 > len(s.tab) {
		old := s.tab
		s.tab = make([]uintptr, len(old)*2)
		s.n = 0
		for _, q := range old {
			if q != 0 && q != ^uintptr(0) {
				s.tab[s.slot(q)] = q
				s.n++
			}
		}
	}
	i := s.slot(p)
	if s.tab[i] != p {
		s.tab[i] = p
		s.n++
	}
}

// del uses backward-shift deletion so probing stays correct without tombstones.
//
//go:norace
func (s *ptrSet) del(p uintptr) {
	if p == 0 {
		return
	}
	i := s.slot(p)
	if s.tab[i] != p {
		return
	}
	mask := len(s.tab) - 1
	s.tab[i] = 0
	s.n--
	j := (i + 1) & mask
	for s.tab[j] != 0 {
		q := s.tab[j]
		s.tab[j] = 0
		s.n--
		k := s.slot(q)
		s.tab[k] = q
		s.n++
		j = (j + 1) & mask
	}
}

// IsPooled reports whether the object with this address was released to a pool and has not
// been handed out again (objects dropped by the pool policy count as released).
//
//go:norace
func (w *World) IsPooled(p uintptr) bool { return w.pooled.has(p) }

// keepAlive pins a dropped object for the rest of the run so its address is never reused.
//
//go:norace
func (w *World) keepAlive(x interface{}) {
	if w.nkeep == len(w.keep) {
		n := make([]interface{}, 2*len(w.keep))
		for i := range w.keep { // no copy(): typedslicecopy instruments itself under -race
			n[i] = w.keep[i]
		}
		w.keep = n
	}
	w.keep[w.nkeep] = x
	w.nkeep++
}

func init() {
	if os.Getenv("SIMRT_CANONICAL") == "1" {
		canonical = true
	}
}

package simrt

import (
	"fmt"
	"reflect"
	"sort"
	"strconv"
	"sync"
)

// Keys returns the keys of m in the order the world dictates. It replaces `for k := range m`.
// Any permutation is within the language's contract for map iteration.
func Keys[M ~map[K]V, K comparable, V any](m M) []K {
	w := W
	if w == nil && !canonical {
		ks := make([]K, 0, len(m))
		for k := range m {
			ks = append(ks, k)
		}
		return ks
	}
	if len(m) == 0 {
		return nil
	}
	ks := make([]K, 0, len(m))
	for k := range m {
		ks = append(ks, k)
	}
	if len(ks) > 1 {
		sortKeys(ks, func(k K) interface{} { return m[k] })
		permute(w, len(ks), func(i, j int) { ks[i], ks[j] = ks[j], ks[i] })
	}
	return ks
}

// MapKeys replaces reflect.Value.MapKeys.
func MapKeys(v reflect.Value) []reflect.Value {
	ks := v.MapKeys()
	w := W
	if (w == nil && !canonical) || len(ks) < 2 {
		return ks
	}
	type kv struct {
		k reflect.Value
		s string
	}
	items := make([]kv, len(ks))
	allNum := true
	for i, k := range ks {
		items[i] = kv{k, canonValue(k, 0)}
		if !isNumKind(k.Kind()) {
			allNum = false
		}
	}
	sort.SliceStable(items, func(i, j int) bool {
		if allNum {
			return numLess(items[i].k, items[j].k)
		}
		if items[i].s != items[j].s {
			return items[i].s < items[j].s
		}
		return canonValue(v.MapIndex(items[i].k), 0) < canonValue(v.MapIndex(items[j].k), 0)
	})
	for i := range items {
		ks[i] = items[i].k
	}
	permute(w, len(ks), func(i, j int) { ks[i], ks[j] = ks[j], ks[i] })
	return ks
}

func isNumKind(k reflect.Kind) bool {
	switch k {
	case reflect.Int, reflect.Int8, reflect.Int16, reflect.Int32, reflect.Int64,
		reflect.Uint, reflect.Uint8, reflect.Uint16, reflect.Uint32, reflect.Uint64, reflect.Uintptr,
		reflect.Float32, reflect.Float64:
		return true
	}
	return false
}

func numLess(a, b reflect.Value) bool {
	switch {
	case a.CanInt() && b.CanInt():
		return a.Int() < b.Int()
	case a.CanUint() && b.CanUint():
		return a.Uint() < b.Uint()
	case a.CanFloat() && b.CanFloat():
		return a.Float() < b.Float()
	}
	return canonValue(a, 0) < canonValue(b, 0)
}

func sortKeys[K comparable](ks []K, val func(K) interface{}) {
	switch s := any(ks).(type) {
	case []string:
		sort.Strings(s)
		return
	case []int:
		sort.Ints(s)
		return
	}
	strs := make([]string, len(ks))
	allNum := true
	for i, k := range ks {
		rv := reflect.ValueOf(k)
		strs[i] = canonValue(rv, 0)
		if !rv.IsValid() || !isNumKind(rv.Kind()) {
			allNum = false
		}
	}
	idx := make([]int, len(ks))
	for i := range idx {
		idx[i] = i
	}
	sort.SliceStable(idx, func(a, b int) bool {
		i, j := idx[a], idx[b]
		if allNum {
			return numLess(reflect.ValueOf(ks[i]), reflect.ValueOf(ks[j]))
		}
		if strs[i] != strs[j] {
			return strs[i] < strs[j]
		}
		// equal-looking keys (e.g. two distinct node pointers with the same content):
		// break the tie on the mapped value so the order never depends on addresses
		return canonValue(reflect.ValueOf(val(ks[i])), 0) < canonValue(reflect.ValueOf(val(ks[j])), 0)
	})
	out := make([]K, len(ks))
	for a, i := range idx {
		out[a] = ks[i]
	}
	copy(ks, out)
}

// canonValue renders a value by content only (pointers are followed, never printed).
func canonValue(v reflect.Value, depth int) string {
	if !v.IsValid() {
		return "<nil>"
	}
	if depth > 8 {
		return "<deep>"
	}
	if v.Kind() == reflect.Interface || v.Kind() == reflect.Ptr {
		if v.CanInterface() && !v.IsNil() {
			if t, ok := v.Interface().(reflect.Type); ok {
				return "T:" + t.String() + "/" + t.PkgPath()
			}
		}
	}
	switch v.Kind() {
	case reflect.String:
		return "s:" + v.String()
	case reflect.Bool:
		return "b:" + strconv.FormatBool(v.Bool())
	case reflect.Int, reflect.Int8, reflect.Int16, reflect.Int32, reflect.Int64:
		return "i:" + strconv.FormatInt(v.Int(), 10)
	case reflect.Uint, reflect.Uint8, reflect.Uint16, reflect.Uint32, reflect.Uint64, reflect.Uintptr:
		return "u:" + strconv.FormatUint(v.Uint(), 10)
	case reflect.Float32, reflect.Float64:
		return "f:" + strconv.FormatFloat(v.Float(), 'g', -1, 64)
	case reflect.Ptr, reflect.Interface:
		if v.IsNil() {
			return "<nil>"
		}
		return v.Type().String() + ">" + canonValue(v.Elem(), depth+1)
	case reflect.Struct:
		s := v.Type().String() + "{"
		for i := 0; i < v.NumField(); i++ {
			s += canonValue(v.Field(i), depth+1) + ","
		}
		return s + "}"
	case reflect.Slice, reflect.Array:
		s := "["
		for i := 0; i < v.Len(); i++ {
			s += canonValue(v.Index(i), depth+1) + ","
		}
		return s + "]"
	case reflect.Map:
		ks := v.MapKeys()
		parts := make([]string, len(ks))
		for i, k := range ks {
			parts[i] = canonValue(k, depth+1) + ":" + canonValue(v.MapIndex(k), depth+1)
		}
		sort.Strings(parts)
		return fmt.Sprint(parts)
	case reflect.Func, reflect.Chan, reflect.UnsafePointer:
		if v.IsNil() {
			return "<nil>"
		}
		return v.Type().String()
	}
	return v.Type().String()
}

// permute applies the world's map-order mode to a sorted sequence of n elements via swap.
func permute(w *World, n int, swap func(i, j int)) {
	if w == nil {
		return // canonical pass-through: sorted
	}
	mode, rot := w.orderMode()
	w.countKeys()
	switch mode {
	case OrderSorted:
		return
	case OrderReverse:
		for i, j := 0, n-1; i < j; i, j = i+1, j-1 {
			swap(i, j)
		}
	case OrderRotate:
		r := rot % n
		if r == 0 {
			return
		}
		// rotate left by r using three reversals
		rev := func(a, b int) {
			for a < b {
				swap(a, b)
				a++
				b--
			}
		}
		rev(0, r-1)
		rev(r, n-1)
		rev(0, n-1)
	case OrderSwap:
		i := rot % n
		j := (i + 1) % n
		if i != j {
			swap(i, j)
		}
	case OrderShuffle:
		id := true
		for i := n - 1; i > 0; i-- {
			j := w.Choose(i+1, "keys.shuffle")
			if j != i {
				swap(i, j)
				id = false
			}
		}
		if id {
			return
		}
	}
	w.countPermuted()
}

//go:norace
func (w *World) orderMode() (int, int) {
	if w.pristine > 0 {
		return OrderSorted, 0
	}
	return w.cfg.MapOrder, w.cfg.MapRot
}

//go:norace
func (w *World) countKeys() { w.Stat[StKeysCalls]++ }

//go:norace
func (w *World) countPermuted() { w.Stat[StKeysPermuted]++ }

// MapIter replaces *reflect.MapIter (returned by reflect.Value.MapRange): it walks the keys in the
// order the world dictates.
type MapIter struct {
	m    reflect.Value
	keys []reflect.Value
	i    int
}

// MapRange replaces reflect.Value.MapRange.
func MapRange(v reflect.Value) *MapIter {
	return &MapIter{m: v, keys: MapKeys(v), i: -1}
}

func (it *MapIter) Next() bool {
	for {
		it.i++
		if it.i >= len(it.keys) {
			return false
		}
		if it.m.MapIndex(it.keys[it.i]).IsValid() { // skip entries deleted during iteration, as Go does
			return true
		}
	}
}
func (it *MapIter) Key() reflect.Value   { return it.keys[it.i] }
func (it *MapIter) Value() reflect.Value { return it.m.MapIndex(it.keys[it.i]) }
func (it *MapIter) Reset(v reflect.Value) {
	it.m, it.keys, it.i = v, MapKeys(v), -1
}

// MapsKeys / MapsValues / MapsAll replace maps.Keys / maps.Values / maps.All (iterators).
func MapsKeys[M ~map[K]V, K comparable, V any](m M) func(yield func(K) bool) {
	return func(yield func(K) bool) {
		for _, k := range Keys(m) {
			if _, ok := m[k]; ok && !yield(k) {
				return
			}
		}
	}
}

func MapsValues[M ~map[K]V, K comparable, V any](m M) func(yield func(V) bool) {
	return func(yield func(V) bool) {
		for _, k := range Keys(m) {
			if v, ok := m[k]; ok && !yield(v) {
				return
			}
		}
	}
}

func MapsAll[M ~map[K]V, K comparable, V any](m M) func(yield func(K, V) bool) {
	return func(yield func(K, V) bool) {
		for _, k := range Keys(m) {
			if v, ok := m[k]; ok && !yield(k, v) {
				return
			}
		}
	}
}

// SyncMapRange replaces (*sync.Map).Range: the entries are visited in the world's map order (a
// snapshot taken first; Range promises no more than "each key at most once", so a snapshot is within
// its contract). With no world installed it is the real Range.
func SyncMapRange(m *sync.Map, f func(key, value any) bool) {
	if W == nil && !canonical {
		m.Range(f)
		return
	}
	tmp := map[any]any{}
	m.Range(func(k, v any) bool { tmp[k] = v; return true })
	for _, k := range Keys(tmp) {
		if !f(k, tmp[k]) {
			return
		}
	}
}

package simrt

import (
	"reflect"
	"runtime"
	"unsafe"
	"weak"
)

// ---- seam S8: object addresses as numbers ----
//
// A program that turns a pointer into a number (reflect.Value.Pointer / UnsafeAddr) and keeps the
// number - as a cache key, an identity in a side table - depends on what the allocator does with the
// address after the object has died. In a world the number is simulated:
//
//   - while an object is alive it has one simulated address, and no two live objects share one
//     (exactly what the real allocator guarantees);
//   - an object seen for the first time gets either a fresh simulated address or - seeded choice -
//     the simulated address of an object that is provably dead (address reuse, which the real
//     allocator performs after a collection).
//
// "Provably dead" is decided by a weak pointer after a forced, blocking runtime.GC() at the moment
// of the decision, so the set of dead objects is a function of the program's reachability graph at
// that point and not of when the background collector happened to run: the choice replays.
// With no world installed the real address is returned.

type addrEntry struct {
	real uintptr
	sim  uintptr
	wp   weak.Pointer[byte]
	gone bool // its simulated address has been handed to a newer object
}

type addrTab struct {
	ents []addrEntry
	n    int
	gcs  int
}

const maxAddrGCs = 48 // forced collections per world

var addrNext uintptr

// AddrReusePct is the probability (percent) with which a newly seen object takes over the simulated
// address of a dead one when there is one. Set per world through Config.AddrReusePct (0 = default 60, negative = never).
const defaultAddrReusePct = 60

// ValuePointer replaces reflect.Value.Pointer.
func ValuePointer(v reflect.Value) uintptr {
	real := v.Pointer()
	w := W
	if w == nil || real == 0 {
		return real
	}
	return w.simAddr(real, v.UnsafePointer())
}

// ValueUnsafeAddr replaces reflect.Value.UnsafeAddr.
func ValueUnsafeAddr(v reflect.Value) uintptr {
	real := v.UnsafeAddr()
	w := W
	if w == nil || real == 0 {
		return real
	}
	return w.simAddr(real, v.Addr().UnsafePointer())
}

//go:norace
func (w *World) simAddr(real uintptr, p unsafe.Pointer) uintptr {
	t := &w.addr
	// a known, still living object keeps its address
	for i := t.n - 1; i >= 0; i-- {
		e := &t.ents[i]
		if e.real == real && !e.gone {
			if e.wp == (weak.Pointer[byte]{}) || e.wp.Value() != nil {
				w.record("addr.known", -1, i)
				return e.sim
			}
			break // the object that had this real address is dead: p is a new object
		}
	}
	if !isHeap(p) || runtime.GOARCH != "amd64" || runtime.GOOS != "linux" {
		// globals / read-only data never die and are never reused: their order of first sight names them
		return w.addrAdd(real, weak.Pointer[byte]{}, 0)
	}
	// new object: first the seeded decision whether it may take over a dead object's number at all; only then
	// collect (so that "dead" means unreachable at this very point of the run) and look for one. Collections
	// are bounded per world: beyond the bound every new object gets a fresh number.
	pct := w.cfg.AddrReusePct
	if pct == 0 {
		pct = defaultAddrReusePct
	}
	if pct < 0 {
		pct = 0
	}
	reuse := uintptr(0)
	if t.n > 0 && w.Choose(100, "addr.reuse") < pct && t.gcs < maxAddrGCs {
		t.gcs++
		runtime.GC()
		w.Stat[StAddrGC]++
		dead := 0
		for i := 0; i < t.n; i++ {
			e := &t.ents[i]
			if !e.gone && e.isDead() {
				dead++
			}
		}
		if dead > 0 {
			k := w.Choose(dead, "addr.which")
			for i := 0; i < t.n; i++ {
				e := &t.ents[i]
				if !e.gone && e.isDead() {
					if k == 0 {
						reuse = e.sim
						e.gone = true
						break
					}
					k--
				}
			}
			w.Stat[StAddrReuse]++
		}
	}
	return w.addrAdd(real, weak.Make((*byte)(p)), reuse)
}

//go:norace
func (e *addrEntry) isDead() bool { return e.wp != (weak.Pointer[byte]{}) && e.wp.Value() == nil }

//go:norace
func (w *World) addrAdd(real uintptr, wp weak.Pointer[byte], sim uintptr) uintptr {
	t := &w.addr
	if sim == 0 {
		// fresh numbers come from a process-wide counter: no two objects of one process ever share one
		// unless the older is provably dead, even across worlds (something may survive a world in a
		// process-wide table of the program). The event log records table positions, not the numbers.
		addrNext += 0x40
		sim = 0xc000100000 + addrNext
	}
	if t.n == len(t.ents) {
		n := make([]addrEntry, 2*len(t.ents)+64)
		for i := 0; i < t.n; i++ { // no copy(): typedslicecopy instruments itself under -race
			n[i] = t.ents[i]
		}
		t.ents = n
	}
	t.ents[t.n] = addrEntry{real: real, sim: sim, wp: wp}
	t.n++
	w.record("addr.new", -1, t.n)
	return sim
}

// isHeap reports whether p points into the garbage-collected heap. weak.Make throws (unrecoverably)
// for anything else, so this must err on the side of "no". The binaries this runs in are statically
// linked, non-PIE linux/amd64 executables: text, rodata, data and bss lie below 4 GiB, the heap
// arenas (randomised base or 0x00c000000000) far above. Values that reach reflect have escaped, so
// stack addresses do not occur. An object wrongly classed as non-heap is merely never reused; the
// opposite mistake ends the worker with a runtime throw, which the driver reports as harness trouble
// (exit 2), never as a violation.
func isHeap(p unsafe.Pointer) bool {
	return uintptr(p) >= 1<<32 && uintptr(unsafe.Pointer(&isHeapAnchor)) < 1<<32
}

var isHeapAnchor byte // a bss address: if even this is above 4 GiB the layout assumption does not hold

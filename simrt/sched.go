package simrt

import (
	"sync"
)

// Cooperative baton scheduler over real goroutines. Exactly one task runs at a time; every other
// task is parked on its own channel. Hand-off happens inside raceDisable()/raceEnable(), so the
// scheduler contributes no happens-before edge: under -race the detector reports exactly the
// accesses that are unordered in the program itself, deterministically for a given schedule.

const (
	tRunnable = iota
	tDone
)

type task struct {
	id    int
	wake  chan struct{}
	state int
	fn    func()
	Panic interface{}
}

type sched struct {
	tasks   []*task
	nt      int
	cur     int
	active  bool
	step    int64
	si      int // next explicit schedule entry
	pi      int // next PCT step
	taken   []SchedEntry
	ntaken  int
	streak  int    // consecutive blocked yields without progress (statistic only)
	bmask   uint64 // tasks that failed to take a lock since anybody last made progress
	swHash  uint64
	nswitch int64
	abort   bool
	wg      sync.WaitGroup
}

func (s *sched) init() {
	s.tasks = make([]*task, 64)
	s.taken = make([]SchedEntry, 1<<14)
	s.cur = -1
	s.swHash = 0xcbf29ce484222325
}

type abortSentinel struct{ why string }

// Go registers a task. Before RunTasks it is a harness task; called from instrumented code while
// the scheduler runs it is a goroutine the program itself started.
func (w *World) Go(fn func()) int {
	s := &w.sched
	t := &task{id: s.nt, wake: make(chan struct{}, 1), fn: fn}
	if s.nt == len(s.tasks) {
		// table full: take over the slot of a task that has finished (a long round may start many short-lived
		// goroutines; at most 64 can be alive at once)
		if i := w.doneSlot(); i > 0 {
			t.id = i
			w.setTask(i, t)
			if s.active {
				s.wg.Add(1)
				go w.taskMain(t)
			}
			return t.id
		}
	}
	w.addTask(t)
	if s.active {
		s.wg.Add(1)
		go w.taskMain(t)
	}
	return t.id
}

//go:norace
func (w *World) doneSlot() int {
	s := &w.sched
	for i := 1; i < s.nt; i++ {
		if s.tasks[i] != nil && s.tasks[i].state == tDone {
			return i
		}
	}
	return -1
}

//go:norace
func (w *World) setTask(i int, t *task) { w.sched.tasks[i] = t }

//go:norace
func (w *World) addTask(t *task) {
	s := &w.sched
	if s.nt == len(s.tasks) {
		panic("simrt: too many tasks")
	}
	s.tasks[s.nt] = t
	s.nt++
}

// Go replaces the go statement in instrumented code.
func Go(fn func()) {
	w := W
	if w == nil || !w.sched.active {
		go fn()
		return
	}
	w.Go(fn)
}

// RunTasks runs all registered tasks to completion under the seeded schedule.
// It returns "" or the reason the run was aborted ("deadlock", "stepcap").
func (w *World) RunTasks() string {
	s := &w.sched
	if s.nt == 0 {
		return ""
	}
	w.setActive(true)
	for i := 0; i < s.nt; i++ {
		s.wg.Add(1)
		go w.taskMain(s.tasks[i]) // creation stays visible: set-up happens-before every task
	}
	first := w.pickFirst()
	w.handTo(first)
	s.wg.Wait() // visible: every task happens-before what the harness does next
	w.setActive(false)
	return w.Aborted
}

// RunOne runs fn as the only initial task of a fresh round: goroutines the program starts while it runs become
// further tasks under the seeded schedule. It may be called any number of times per world (the task table is
// emptied first; step counters and the switch hash keep running). A panic of fn is re-raised in the caller.
func (w *World) RunOne(fn func()) string {
	w.clearTasks()
	id := w.Go(fn)
	ab := w.RunTasks()
	t := w.sched.tasks[id]
	w.clearTasks()
	if t != nil && t.Panic != nil {
		panic(t.Panic)
	}
	return ab
}

// EnterMain makes the calling goroutine task 0 of a scheduler round that lasts until LeaveMain: everything the
// caller does in between runs under the baton, and goroutines the program starts meanwhile become further tasks,
// interleaved with the caller by the world's seed (Config.PreemptDen) instead of by the machine.
func (w *World) EnterMain() {
	w.clearTasks()
	t := &task{id: 0, wake: make(chan struct{}, 1)}
	w.addTask(t)
	w.setActive(true)
	w.setCur(0)
}

// LeaveMain ends the round: the caller's task is finished, the remaining tasks run to completion (or the
// round is aborted: "deadlock" if they wait for something nobody will do), and the scheduler is switched off.
func (w *World) LeaveMain() string {
	s := &w.sched
	if s.nt > 0 && s.tasks[0] != nil && s.active {
		w.finish(s.tasks[0]) // hands the baton on (or, after an abort, wakes the others so that they unwind)
		s.wg.Wait()
	}
	w.setActive(false)
	w.clearTasks()
	return w.Aborted
}

//go:norace
func (w *World) setCur(i int) { w.sched.cur = i }

//go:norace
func (w *World) clearTasks() {
	s := &w.sched
	for i := 0; i < s.nt; i++ {
		s.tasks[i] = nil
	}
	s.nt = 0
	s.bmask = 0
	s.streak = 0
}

//go:norace
func (w *World) setActive(b bool) {
	w.sched.active = b
	if !b {
		w.sched.cur = -1
	}
}

//go:norace
func (w *World) pickFirst() int {
	s := &w.sched
	first := 0
	if w.cfg.Explicit {
		if s.si < len(w.cfg.Schedule) && w.cfg.Schedule[s.si].Step == 0 {
			if to := w.cfg.Schedule[s.si].To; to >= 0 && to < s.nt {
				first = to
			}
			s.si++
		}
	} else {
		first = w.Choose(s.nt, "sched.first")
	}
	w.noteSwitch(0, first)
	s.cur = first
	return first
}

//go:norace
func (w *World) handTo(id int) {
	raceDisable()
	w.sched.tasks[id].wake <- struct{}{}
	raceEnable()
}

func (w *World) taskMain(t *task) {
	defer w.sched.wg.Done()
	w.park(t)
	defer func() {
		if r := recover(); r != nil {
			if _, ok := r.(abortSentinel); !ok {
				t.Panic = r
			}
		}
		w.finish(t)
	}()
	if w.aborted() {
		return
	}
	t.fn()
}

//go:norace
func (w *World) aborted() bool { return w.sched.abort }

//go:norace
func (w *World) park(t *task) {
	raceDisable()
	<-t.wake
	raceEnable()
}

// finish marks the task done and passes the baton on.
//
//go:norace
func (w *World) finish(t *task) {
	s := &w.sched
	t.state = tDone
	s.streak = 0
	s.bmask = 0
	if s.abort {
		// wake everybody still parked so they can unwind
		for i := 0; i < s.nt; i++ {
			if o := s.tasks[i]; o.state != tDone && o != t {
				s.cur = o.id
				w.handTo(o.id)
				return
			}
		}
		return
	}
	next := w.pickOther(t.id, true)
	if next < 0 {
		return
	}
	s.step++
	w.noteSwitch(s.step, next)
	s.cur = next
	w.handTo(next)
}

// pickOther chooses a live task other than `not`; forced switches are seeded too.
//
//go:norace
func (w *World) pickOther(not int, forced bool) int {
	s := &w.sched
	n := 0
	for i := 0; i < s.nt; i++ {
		if i != not && s.tasks[i].state != tDone {
			n++
		}
	}
	if n == 0 {
		return -1
	}
	k := 0
	if w.cfg.Explicit {
		// explicit entry for this step, if any
		if s.si < len(w.cfg.Schedule) && w.cfg.Schedule[s.si].Step == s.step+1 && forced {
			to := w.cfg.Schedule[s.si].To
			s.si++
			if to >= 0 && to < s.nt && to != not && s.tasks[to].state != tDone {
				return to
			}
		}
		k = 0 // lowest id
	} else {
		k = w.Choose(n, "sched.pick")
	}
	for i := 0; i < s.nt; i++ {
		if i != not && s.tasks[i].state != tDone {
			if k == 0 {
				return i
			}
			k--
		}
	}
	return -1
}

//go:norace
func (w *World) noteSwitch(step int64, to int) {
	s := &w.sched
	if s.ntaken < len(s.taken) {
		s.taken[s.ntaken] = SchedEntry{step, to}
		s.ntaken++
	}
	h := s.swHash
	h ^= uint64(step)
	h *= 0x100000001b3
	h ^= uint64(to) + 1
	h *= 0x100000001b3
	s.swHash = h
	s.nswitch++
	w.record("sched.switch", int(step), to)
}

// Yield is a scheduling point. The instrumenter inserts calls at function entries, before
// statements that touch shared state, and simrt calls it at every seam.
func Yield() {
	w := W
	if w == nil || !w.sched.active {
		return
	}
	w.yield(false)
}

//go:norace
func (w *World) yield(blocked bool) {
	s := &w.sched
	if s.cur < 0 {
		return
	}
	if s.abort {
		panic(abortSentinel{w.Aborted})
	}
	s.step++
	w.Stat[StYield]++
	if s.step > w.cfg.MaxSteps {
		// the cap guards against tasks that keep each other spinning; a round whose only live task is the caller
		// cannot livelock on the schedule (a long single-caller history just has many yield points)
		alive := 0
		for i := 0; i < s.nt; i++ {
			if s.tasks[i] != nil && s.tasks[i].state != tDone {
				alive++
			}
		}
		if alive > 1 {
			w.abortRun("stepcap")
		}
		w.cfg.MaxSteps += 5_000_000
	}
	me := s.cur
	target := -1
	if blocked {
		s.streak++
		w.Stat[StLockSpin]++
		s.bmask |= 1 << uint(me)
		// precise deadlock: every live task has failed to take a lock since anybody last made
		// progress (no unlock can have happened in between, because every unlock is progress)
		all := true
		for i := 0; i < s.nt; i++ {
			if s.tasks[i].state != tDone && s.bmask&(1<<uint(i)) == 0 {
				all = false
				break
			}
		}
		if all {
			w.abortRun("deadlock")
		}
	} else {
		s.streak = 0
		s.bmask = 0
	}
	if w.cfg.Explicit {
		if s.si < len(w.cfg.Schedule) && w.cfg.Schedule[s.si].Step < s.step {
			// entries that were skipped (step no longer reached the same way): drop them
			for s.si < len(w.cfg.Schedule) && w.cfg.Schedule[s.si].Step < s.step {
				s.si++
			}
		}
		if s.si < len(w.cfg.Schedule) && w.cfg.Schedule[s.si].Step == s.step {
			to := w.cfg.Schedule[s.si].To
			s.si++
			if to >= 0 && to < s.nt && to != me && s.tasks[to].state != tDone {
				target = to
			}
		}
		if target < 0 && blocked {
			target = w.pickUnblockedLowest(me)
		}
	} else if blocked {
		target = w.pickUnblocked(me)
		if target >= 0 {
			w.Stat[StTaskSwitchForced]++
		}
	} else if len(w.cfg.PCTSteps) > 0 {
		for s.pi < len(w.cfg.PCTSteps) && w.cfg.PCTSteps[s.pi] < s.step {
			s.pi++
		}
		if s.pi < len(w.cfg.PCTSteps) && w.cfg.PCTSteps[s.pi] == s.step {
			s.pi++
			target = w.pickOther(me, false)
		}
	} else if w.cfg.PreemptDen > 0 {
		if w.next()%uint64(w.cfg.PreemptDen) == 0 {
			target = w.pickOther(me, false)
		}
	}
	if target < 0 {
		if blocked {
			// alone and blocked: nobody can release the lock
			alive := 0
			for i := 0; i < s.nt; i++ {
				if s.tasks[i].state != tDone {
					alive++
				}
			}
			if alive <= 1 {
				w.abortRun("deadlock")
			}
		}
		return
	}
	if !blocked {
		w.Stat[StPreempt]++
	}
	w.noteSwitch(s.step, target)
	s.cur = target
	raceDisable()
	s.tasks[target].wake <- struct{}{}
	<-s.tasks[me].wake
	raceEnable()
	if s.abort {
		panic(abortSentinel{w.Aborted})
	}
}

// pickUnblocked chooses (seeded) among live tasks that have not failed a lock since the last progress.
//
//go:norace
func (w *World) pickUnblocked(not int) int {
	s := &w.sched
	n := 0
	for i := 0; i < s.nt; i++ {
		if i != not && s.tasks[i].state != tDone && s.bmask&(1<<uint(i)) == 0 {
			n++
		}
	}
	if n == 0 {
		return -1
	}
	k := w.Choose(n, "sched.pick")
	for i := 0; i < s.nt; i++ {
		if i != not && s.tasks[i].state != tDone && s.bmask&(1<<uint(i)) == 0 {
			if k == 0 {
				return i
			}
			k--
		}
	}
	return -1
}

//go:norace
func (w *World) pickUnblockedLowest(not int) int {
	s := &w.sched
	for d := 1; d <= s.nt; d++ {
		i := (not + d) % s.nt
		if i != not && s.tasks[i].state != tDone && s.bmask&(1<<uint(i)) == 0 {
			return i
		}
	}
	return -1
}

//go:norace
func (w *World) pickOtherLowest(not int) int {
	s := &w.sched
	// round-robin from not+1 so that spinning tasks take turns
	for d := 1; d <= s.nt; d++ {
		i := (not + d) % s.nt
		if i != not && s.tasks[i].state != tDone {
			return i
		}
	}
	return -1
}

//go:norace
func (w *World) abortRun(why string) {
	s := &w.sched
	if !s.abort {
		s.abort = true
		w.Aborted = why
		w.record("sched.abort", -1, len(why))
	}
	panic(abortSentinel{why})
}

// CurrentTask returns the id of the running task (-1 outside RunTasks).
//
//go:norace
func (w *World) CurrentTask() int { return w.sched.cur }

// Step returns the global yield-step counter (used to stamp invoke/return events).
//
//go:norace
func (w *World) Step() int64 { return w.sched.step }

// Tick advances and returns the global step counter without being a preemption point;
// history recorders use it so that every invoke/return has a unique, totally ordered stamp.
//
//go:norace
func (w *World) Tick() int64 { w.sched.step++; return w.sched.step }

// Taken returns the scheduling decisions actually taken.
func (w *World) Taken() []SchedEntry {
	out := make([]SchedEntry, w.sched.ntaken)
	copy(out, w.sched.taken[:w.sched.ntaken])
	return out
}

// SwitchHash fingerprints the interleaving (sequence of (step, task) switches).
func (w *World) SwitchHash() uint64 { return w.sched.swHash }

// Switches is the number of task switches.
func (w *World) Switches() int64 { return w.sched.nswitch }

// TaskPanic returns the value a task panicked with (nil if none).
func (w *World) TaskPanic(id int) interface{} { return w.sched.tasks[id].Panic }

// ---- locks ----

// Mutex replaces sync.Mutex. The real lock is still taken, so lock happens-before edges are the
// real ones; a task that cannot take it yields instead of blocking while it holds the baton.
type Mutex struct{ mu sync.Mutex }

func (m *Mutex) Lock() {
	w := W
	if w == nil || !w.sched.active {
		m.mu.Lock()
		return
	}
	w.yield(false)
	for !m.mu.TryLock() {
		w.yield(true)
	}
	w.progress()
}

func (m *Mutex) TryLock() bool { return m.mu.TryLock() }

func (m *Mutex) Unlock() {
	m.mu.Unlock()
	Yield()
}

// RWMutex replaces sync.RWMutex. Besides mutual exclusion it keeps sync.RWMutex's documented
// writer preference: from the moment a goroutine has called Lock, further RLock calls wait until that
// writer has had the lock - so a goroutine that read-locks twice with a writer arriving in between
// deadlocks here exactly as it does with the real mutex.
type RWMutex struct {
	mu sync.RWMutex
	ww int // writers that have called Lock and not yet acquired it
}

//go:norace
func (m *RWMutex) addWW(d int) { m.ww += d }

//go:norace
func (m *RWMutex) pendingW() bool { return m.ww > 0 }

func (m *RWMutex) Lock() {
	w := W
	if w == nil || !w.sched.active {
		m.mu.Lock()
		return
	}
	w.yield(false)
	m.addWW(1)
	defer m.addWW(-1) // also when the run is aborted while this task waits (the mutex may be process-wide)
	for !m.mu.TryLock() {
		w.yield(true)
	}
	w.progress()
}

func (m *RWMutex) RLock() {
	w := W
	if w == nil || !w.sched.active {
		m.mu.RLock()
		return
	}
	w.yield(false)
	for m.pendingW() || !m.mu.TryRLock() {
		w.yield(true)
	}
	w.progress()
}

func (m *RWMutex) TryLock() bool  { return m.mu.TryLock() }
func (m *RWMutex) TryRLock() bool { return m.mu.TryRLock() }
func (m *RWMutex) Unlock()        { m.mu.Unlock(); Yield() }
func (m *RWMutex) RUnlock()       { m.mu.RUnlock(); Yield() }
func (m *RWMutex) RLocker() sync.Locker {
	return rlocker{m}
}

type rlocker struct{ m *RWMutex }

func (r rlocker) Lock()   { r.m.RLock() }
func (r rlocker) Unlock() { r.m.RUnlock() }

//go:norace
func (w *World) progress() { w.sched.streak = 0; w.sched.bmask = 0 }

// WaitGroup replaces sync.WaitGroup for goroutines the program itself starts.
type WaitGroup struct {
	wg sync.WaitGroup
	n  int
}

func (g *WaitGroup) Add(d int) { g.wg.Add(d); g.add(d) }
func (g *WaitGroup) Done()     { g.add(-1); g.wg.Done() }

//go:norace
func (g *WaitGroup) add(d int) { g.n += d }

//go:norace
func (g *WaitGroup) count() int { return g.n }

func (g *WaitGroup) Wait() {
	w := W
	if w != nil && w.sched.active {
		for g.count() > 0 {
			w.yield(true)
		}
	}
	g.wg.Wait()
}

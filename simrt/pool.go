package simrt

import (
	"reflect"
	"sync"
	"unsafe"
)

// Pool replaces sync.Pool in the instrumented copy. It stays inside sync.Pool's contract:
// Get returns New() or an object previously Put and not handed out since; Put may drop.
type Pool struct {
	New func() interface{}

	real sync.Pool // pass-through mode
	reg  bool
	free []interface{}
	who  []int32 // task that released free[i]
	nf   int
}

var (
	allPools  []*Pool
	nAllPools int
)

// register runs under the baton (or before any task exists), so it needs no lock; it is
// norace and grows its table by hand so that the race detector sees nothing of it.
//
//go:norace
func (p *Pool) register() {
	if p.reg {
		return
	}
	p.reg = true
	p.free = make([]interface{}, 64)
	p.who = make([]int32, 64)
	if nAllPools == len(allPools) {
		n := make([]*Pool, 2*len(allPools)+64)
		for i := 0; i < nAllPools; i++ {
			n[i] = allPools[i]
		}
		allPools = n
	}
	allPools[nAllPools] = p
	nAllPools++
}

//go:norace
func (p *Pool) registered() bool { return p.reg }

//go:norace
func resetPools() {
	for k := 0; k < nAllPools; k++ {
		p := allPools[k]
		for i := 0; i < p.nf; i++ {
			p.free[i] = nil
		}
		p.nf = 0
	}
}

// objAddr returns an address identifying a pooled object (pointer, map, slice pointer, chan, func).
func objAddr(x interface{}) uintptr {
	if x == nil {
		return 0
	}
	v := reflect.ValueOf(x)
	switch v.Kind() {
	case reflect.Ptr, reflect.Map, reflect.Chan, reflect.UnsafePointer:
		return v.Pointer()
	}
	return 0
}

// objPtr returns the pointer word of a pointer-shaped pooled object (nil otherwise).
func objPtr(x interface{}) unsafe.Pointer {
	if x == nil {
		return nil
	}
	switch reflect.TypeOf(x).Kind() {
	case reflect.Ptr, reflect.Map, reflect.Chan, reflect.UnsafePointer:
		type eface struct {
			typ, data unsafe.Pointer
		}
		return (*eface)(unsafe.Pointer(&x)).data
	}
	return nil
}

// ObjAddr is exported for invariant checkers.
func ObjAddr(x interface{}) uintptr { return objAddr(x) }

// Get implements sync.Pool.Get under the world's policy.
func (p *Pool) Get() interface{} {
	w := W
	if w == nil {
		if canonical {
			return p.canonGet()
		}
		if p.real.New == nil && p.New != nil {
			p.real.New = p.New
		}
		return p.real.Get()
	}
	if !p.registered() {
		p.register()
	}
	Yield()
	x := p.take(w)
	if x == nil {
		if p.New != nil {
			x = p.New()
		}
		return x
	}
	if a := objPtr(x); a != nil {
		// sync.Pool's documented edge: Put(x) synchronizes before the Get that returns x.
		raceAcquire(a)
	}
	return x
}

//go:norace
func (p *Pool) take(w *World) interface{} {
	w.Stat[StPoolGet]++
	if w.pristine > 0 || w.cfg.PoolPolicy == PoolFresh || p.nf == 0 {
		w.Stat[StPoolNew]++
		w.record("pool.new", -1, 0)
		return nil
	}
	idx := 0
	switch w.cfg.PoolPolicy {
	case PoolLIFO:
		idx = p.nf - 1
	case PoolFIFO:
		idx = 0
	default:
		c := w.Choose(p.nf+1, "pool.get")
		if c == p.nf {
			w.Stat[StPoolNew]++
			return nil
		}
		idx = c
	}
	x := p.free[idx]
	from := p.who[idx]
	for i := idx; i < p.nf-1; i++ {
		p.free[i] = p.free[i+1]
		p.who[i] = p.who[i+1]
	}
	p.nf--
	p.free[p.nf] = nil
	w.Stat[StPoolReuse]++
	if int(from) != w.sched.cur {
		w.Stat[StPoolCrossOwner]++
	}
	if k := reflect.TypeOf(x).Kind(); k == reflect.Ptr || k == reflect.Map || k == reflect.Chan || k == reflect.UnsafePointer {
		w.pooled.del(objAddr2(x))
	}
	w.record("pool.reuse", p.nf, idx)
	return x
}

// objAddr2 is objAddr without reflection on the hot norace path for the common pointer case.
//
//go:norace
func objAddr2(x interface{}) uintptr {
	type eface struct {
		typ, data unsafe.Pointer
	}
	// For pointer-shaped values (pointers, maps, chans, funcs) the interface data word is the pointer.
	// For *[]T it is the pointer to the slice header; that is what objAddr returns too.
	// For non-pointer-shaped values this is the address of a boxed copy, which is harmless here
	// because such values are never tracked (objAddr returns 0 for them and add() ignores 0).
	return uintptr((*eface)(unsafe.Pointer(&x)).data)
}

// Put implements sync.Pool.Put under the world's policy.
func (p *Pool) Put(x interface{}) {
	w := W
	if w == nil {
		if canonical {
			p.canonPut(x)
			return
		}
		p.real.Put(x)
		return
	}
	if x == nil {
		return
	}
	if !p.registered() {
		p.register()
	}
	ap := objPtr(x)
	if ap != nil {
		raceReleaseMerge(ap)
	}
	p.give(w, x, uintptr(ap))
	Yield()
}

//go:norace
func (p *Pool) give(w *World, x interface{}, a uintptr) {
	w.Stat[StPoolPut]++
	if a != 0 {
		if w.pooled.has(a) {
			// like sync.Pool, the simulator keeps both entries: two later Gets may return the same object
			w.Stat[StPoolDoublePut]++
			w.record("pool.doubleput", -1, 0)
		} else if w.pristine == 0 {
			w.pooled.add(a)
		}
	}
	drop := w.pristine > 0 || w.cfg.PoolPolicy == PoolFresh
	if !drop && w.cfg.PoolDropPct > 0 {
		drop = w.Choose(100, "pool.drop") < w.cfg.PoolDropPct
	}
	if drop {
		w.Stat[StPoolDrop]++
		if w.pristine == 0 {
			w.keepAlive(x)
		}
		return
	}
	if p.nf == len(p.free) {
		nf := make([]interface{}, 2*len(p.free))
		nw := make([]int32, 2*len(p.free))
		for i := 0; i < p.nf; i++ {
			nf[i] = p.free[i]
			nw[i] = p.who[i]
		}
		p.free, p.who = nf, nw
	}
	p.free[p.nf] = x
	p.who[p.nf] = int32(w.sched.cur)
	p.nf++
}

// GC is the "garbage collection" fault: it empties free lists, as a real GC empties sync.Pools.
// mode 0 clears every pool; otherwise each pool is cleared with probability 1/2.
//
//go:norace
func (w *World) GC(mode int) {
	w.Stat[StPoolGC]++
	for k := 0; k < nAllPools; k++ {
		p := allPools[k]
		if mode != 0 && w.Choose(2, "gc.pool") == 0 {
			continue
		}
		for i := 0; i < p.nf; i++ {
			w.keepAlive(p.free[i]) // stays "released" for the invariant checker, address never reused
			p.free[i] = nil
		}
		p.nf = 0
	}
}

// FreeCount returns the total number of objects in free lists.
//
//go:norace
func (w *World) FreeCount() int {
	n := 0
	for k := 0; k < nAllPools; k++ {
		n += allPools[k].nf
	}
	return n
}

// canonical (world-less) LIFO pool for the fidelity self-test
var canonMu sync.Mutex

func (p *Pool) canonGet() interface{} {
	canonMu.Lock()
	if len(p.free) > 0 && p.nf > 0 {
		p.nf--
		x := p.free[p.nf]
		p.free[p.nf] = nil
		canonMu.Unlock()
		return x
	}
	canonMu.Unlock()
	if p.New != nil {
		return p.New()
	}
	return nil
}

func (p *Pool) canonPut(x interface{}) {
	if x == nil {
		return
	}
	canonMu.Lock()
	defer canonMu.Unlock()
	if p.nf < len(p.free) {
		p.free[p.nf] = x
	} else {
		p.free = append(p.free, x)
		p.who = append(p.who, 0)
	}
	p.nf++
}

module simrt

go 1.24

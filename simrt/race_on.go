//go:build race

package simrt

import (
	"runtime"
	"unsafe"
)

// RaceBuild reports whether the binary was built with -race.
const RaceBuild = true

func raceDisable()                      { runtime.RaceDisable() }
func raceEnable()                       { runtime.RaceEnable() }
func raceAcquire(p unsafe.Pointer)      { runtime.RaceAcquire(p) }
func raceReleaseMerge(p unsafe.Pointer) { runtime.RaceReleaseMerge(p) }
func raceErrors() int                   { return runtime.RaceErrors() }

package simrt

import (
	"math/rand"
	randv2 "math/rand/v2"
	"time"
)

// Now replaces time.Now. The simulated clock is wall-clock time (no monotonic reading) and
// advances by the world's step on every call.
func Now() time.Time {
	w := W
	if w == nil {
		return time.Now()
	}
	return time.Unix(0, w.tick()).UTC()
}

//go:norace
func (w *World) tick() int64 {
	w.Stat[StNowCalls]++
	t := w.now
	w.now += w.cfg.ClockStep
	return t
}

// Since replaces time.Since.
func Since(t time.Time) time.Duration {
	if W == nil {
		return time.Since(t)
	}
	return Now().Sub(t)
}

// Sleep replaces time.Sleep: simulated time passes, nothing blocks.
func Sleep(d time.Duration) {
	w := W
	if w == nil {
		time.Sleep(d)
		return
	}
	w.AdvanceClock(int64(d))
	Yield()
}

// Knob returns the value of a tuning constant; the world may override the shipped default.
func Knob(name string, def int) int {
	w := W
	if w == nil || w.cfg.Knobs == nil {
		return def
	}
	if v, ok := w.cfg.Knobs[name]; ok {
		if v != def {
			w.countKnob()
		}
		return v
	}
	return def
}

//go:norace
func (w *World) countKnob() { w.Stat[StKnobOverride]++ }

//go:norace
func (w *World) randN(n int) int {
	w.Stat[StRand]++
	if n <= 0 {
		return 0
	}
	return w.Choose(n, "rand")
}

// math/rand replacements (replay only; random() is exempt from every property).

func RandIntn(n int) int {
	if w := W; w != nil {
		return w.randN(n)
	}
	return rand.Intn(n)
}

func RandInt31() int32 {
	if w := W; w != nil {
		return int32(w.randN(1 << 31))
	}
	return rand.Int31()
}

func RandInt31n(n int32) int32 {
	if w := W; w != nil {
		return int32(w.randN(int(n)))
	}
	return rand.Int31n(n)
}

func RandInt63() int64 {
	if w := W; w != nil {
		return int64(w.randN(1 << 62))
	}
	return rand.Int63()
}

func RandInt63n(n int64) int64 {
	if w := W; w != nil {
		return int64(w.randN(int(n)))
	}
	return rand.Int63n(n)
}

func RandInt() int {
	if w := W; w != nil {
		return w.randN(1 << 62)
	}
	return rand.Int()
}

func RandFloat64() float64 {
	if w := W; w != nil {
		return float64(w.randN(1<<53)) / (1 << 53)
	}
	return rand.Float64()
}

func RandSeed(seed int64) {
	if W == nil {
		rand.Seed(seed) //nolint
	}
}

func RandPerm(n int) []int {
	if w := W; w != nil {
		p := make([]int, n)
		for i := range p {
			p[i] = i
		}
		for i := n - 1; i > 0; i-- {
			j := w.randN(i + 1)
			p[i], p[j] = p[j], p[i]
		}
		return p
	}
	return rand.Perm(n)
}

func RandShuffle(n int, swap func(i, j int)) {
	if w := W; w != nil {
		for i := n - 1; i > 0; i-- {
			swap(i, w.randN(i+1))
		}
		return
	}
	rand.Shuffle(n, swap)
}

// math/rand/v2 replacements.

func Rand2IntN(n int) int {
	if w := W; w != nil {
		return w.randN(n)
	}
	return randv2.IntN(n)
}

func Rand2Int() int {
	if w := W; w != nil {
		return w.randN(1 << 62)
	}
	return randv2.Int()
}

func Rand2Int32() int32 {
	if w := W; w != nil {
		return int32(w.randN(1 << 31))
	}
	return randv2.Int32()
}

func Rand2Int32N(n int32) int32 {
	if w := W; w != nil {
		return int32(w.randN(int(n)))
	}
	return randv2.Int32N(n)
}

func Rand2Int64() int64 {
	if w := W; w != nil {
		return int64(w.randN(1 << 62))
	}
	return randv2.Int64()
}

func Rand2Int64N(n int64) int64 {
	if w := W; w != nil {
		return int64(w.randN(int(n)))
	}
	return randv2.Int64N(n)
}

func Rand2Uint32() uint32 {
	if w := W; w != nil {
		return uint32(w.randN(1 << 32))
	}
	return randv2.Uint32()
}

func Rand2Uint64() uint64 {
	if w := W; w != nil {
		return uint64(w.randN(1<<62))<<2 | uint64(w.randN(4))
	}
	return randv2.Uint64()
}

func Rand2Float64() float64 {
	if w := W; w != nil {
		return float64(w.randN(1<<53)) / (1 << 53)
	}
	return randv2.Float64()
}

func Rand2Perm(n int) []int {
	if W != nil {
		return RandPerm(n)
	}
	return randv2.Perm(n)
}

func Rand2Shuffle(n int, swap func(i, j int)) {
	if W != nil {
		RandShuffle(n, swap)
		return
	}
	randv2.Shuffle(n, swap)
}

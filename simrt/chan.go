package simrt

import (
	"runtime"
	"sync"
	"time"
)

// Seams for blocking primitives a future edit of the program may introduce: channel operations,
// select, sync.Cond, sync.Once. Under the baton a task must never block while it holds the baton,
// so every blocking operation becomes "try; if it would block, yield as blocked and retry". The real
// operation is still what finally succeeds, so the program's own happens-before edges stay real.

// YieldBlocked is called when the current task cannot proceed until another task acts.
func YieldBlocked() {
	w := W
	if w == nil || !w.sched.active {
		runtime.Gosched()
		time.Sleep(20 * time.Microsecond)
		return
	}
	w.yield(true)
}

// Progress tells the scheduler that a blocking operation succeeded.
func Progress() {
	if w := W; w != nil && w.sched.active {
		w.progress()
	}
}

// Recv replaces `<-ch`.
func Recv[T any](ch <-chan T) T {
	w := W
	if w == nil || !w.sched.active {
		return <-ch
	}
	if ch == nil {
		for {
			w.yield(true) // receive from a nil channel blocks forever
		}
	}
	w.yield(false)
	for {
		select {
		case v := <-ch:
			w.progress()
			return v
		default:
			w.yield(true)
		}
	}
}

// Recv2 replaces `v, ok := <-ch`.
func Recv2[T any](ch <-chan T) (T, bool) {
	w := W
	if w == nil || !w.sched.active {
		v, ok := <-ch
		return v, ok
	}
	if ch == nil {
		for {
			w.yield(true)
		}
	}
	w.yield(false)
	for {
		select {
		case v, ok := <-ch:
			w.progress()
			return v, ok
		default:
			w.yield(true)
		}
	}
}

// Send replaces `ch <- v`.
func Send[T any](ch chan<- T, v T) {
	w := W
	if w == nil || !w.sched.active {
		ch <- v
		return
	}
	if ch == nil {
		for {
			w.yield(true)
		}
	}
	w.yield(false)
	for {
		select {
		case ch <- v:
			w.progress()
			Yield()
			return
		default:
			w.yield(true)
		}
	}
}

// Cond replaces sync.Cond. Wait releases L, waits (yielding) until a Signal/Broadcast issued after
// the Wait began, and re-acquires L. Spurious wake-ups are within sync.Cond's contract, so Signal is
// implemented as Broadcast.
type Cond struct {
	L       sync.Locker
	mu      sync.Mutex
	rc      *sync.Cond
	waiters []*condWaiter
}

type condWaiter struct{ woken bool }

// NewCond replaces sync.NewCond.
func NewCond(l sync.Locker) *Cond { return &Cond{L: l} }

func (c *Cond) real() *sync.Cond {
	c.mu.Lock()
	if c.rc == nil {
		c.rc = sync.NewCond(c.L)
	}
	c.mu.Unlock()
	return c.rc
}

// Wait keeps sync.Cond's contract: it returns only after a Signal that chose this waiter or a Broadcast that
// happened after it started waiting.
func (c *Cond) Wait() {
	w := W
	if w == nil || !w.sched.active {
		c.real().Wait()
		return
	}
	me := &condWaiter{}
	c.mu.Lock()
	c.waiters = append(c.waiters, me)
	c.mu.Unlock()
	c.L.Unlock()
	for {
		w.yield(true)
		c.mu.Lock()
		woke := me.woken
		c.mu.Unlock()
		if woke {
			break
		}
	}
	w.progress()
	c.L.Lock()
}

// Signal wakes ONE waiter (which one is the world's choice: sync.Cond promises no order), none if nobody waits.
func (c *Cond) Signal() {
	w := W
	if w == nil || !w.sched.active {
		c.mu.Lock()
		rc := c.rc
		c.mu.Unlock()
		if rc != nil {
			rc.Signal()
		}
		return
	}
	c.mu.Lock()
	if n := len(c.waiters); n > 0 {
		k := w.Choose(n, "cond.signal")
		c.waiters[k].woken = true
		c.waiters = append(c.waiters[:k], c.waiters[k+1:]...)
	}
	c.mu.Unlock()
	Progress()
	Yield()
}

func (c *Cond) Broadcast() {
	c.mu.Lock()
	for _, x := range c.waiters {
		x.woken = true
	}
	c.waiters = nil
	rc := c.rc
	c.mu.Unlock()
	if rc != nil {
		rc.Broadcast()
	}
	Progress()
	Yield()
}

// Once replaces sync.Once (callers arriving while f runs wait by yielding).
type Once struct {
	m    Mutex
	done bool
}

func (o *Once) Do(f func()) {
	o.m.Lock()
	defer o.m.Unlock()
	if !o.done {
		defer func() { o.done = true }()
		f()
	}
}

package simrt

import (
	"runtime"
	"sync"
	"time"
)

// Seams for blocking primitives a future edit of the program may introduce: channel operations,
// select, sync.Cond, sync.Once. Under the baton a task must never block while it holds the baton,
// so every blocking operation becomes "try; if it would block, yield as blocked and retry". The real
// operation is still what finally succeeds, so the program's own happens-before edges stay real.

// YieldBlocked is called when the current task cannot proceed until another task acts.
func YieldBlocked() {
	w := W
	if w == nil || !w.sched.active {
		runtime.Gosched()
		time.Sleep(20 * time.Microsecond)
		return
	}
	w.yield(true)
}

// Progress tells the scheduler that a blocking operation succeeded.
func Progress() {
	if w := W; w != nil && w.sched.active {
		w.progress()
	}
}

// Recv replaces `<-ch`.
func Recv[T any](ch <-chan T) T {
	w := W
	if w == nil || !w.sched.active {
		return <-ch
	}
	if ch == nil {
		for {
			w.yield(true) // receive from a nil channel blocks forever
		}
	}
	w.yield(false)
	for {
		select {
		case v := <-ch:
			w.progress()
			return v
		default:
			w.yield(true)
		}
	}
}

// Recv2 replaces `v, ok := <-ch`.
func Recv2[T any](ch <-chan T) (T, bool) {
	w := W
	if w == nil || !w.sched.active {
		v, ok := <-ch
		return v, ok
	}
	if ch == nil {
		for {
			w.yield(true)
		}
	}
	w.yield(false)
	for {
		select {
		case v, ok := <-ch:
			w.progress()
			return v, ok
		default:
			w.yield(true)
		}
	}
}

// Send replaces `ch <- v`.
func Send[T any](ch chan<- T, v T) {
	w := W
	if w == nil || !w.sched.active {
		ch <- v
		return
	}
	if ch == nil {
		for {
			w.yield(true)
		}
	}
	w.yield(false)
	for {
		select {
		case ch <- v:
			w.progress()
			Yield()
			return
		default:
			w.yield(true)
		}
	}
}

// Cond replaces sync.Cond. Wait releases L, waits (yielding) until a Signal/Broadcast issued after
// the Wait began, and re-acquires L. Spurious wake-ups are within sync.Cond's contract, so Signal is
// implemented as Broadcast.
type Cond struct {
	L   sync.Locker
	gen uint64
	mu  sync.Mutex
	rc  *sync.Cond
}

// NewCond replaces sync.NewCond.
func NewCond(l sync.Locker) *Cond { return &Cond{L: l} }

func (c *Cond) real() *sync.Cond {
	c.mu.Lock()
	if c.rc == nil {
		c.rc = sync.NewCond(c.L)
	}
	c.mu.Unlock()
	return c.rc
}

func (c *Cond) Wait() {
	w := W
	if w == nil || !w.sched.active {
		c.real().Wait()
		return
	}
	c.mu.Lock()
	g := c.gen
	c.mu.Unlock()
	c.L.Unlock()
	for {
		w.yield(true)
		c.mu.Lock()
		woke := c.gen != g
		c.mu.Unlock()
		if woke {
			break
		}
	}
	w.progress()
	c.L.Lock()
}

func (c *Cond) Signal() { c.Broadcast() }

func (c *Cond) Broadcast() {
	c.mu.Lock()
	c.gen++
	rc := c.rc
	c.mu.Unlock()
	if rc != nil {
		rc.Broadcast()
	}
	Progress()
	Yield()
}

// Once replaces sync.Once (callers arriving while f runs wait by yielding).
type Once struct {
	m    Mutex
	done bool
}

func (o *Once) Do(f func()) {
	o.m.Lock()
	defer o.m.Unlock()
	if !o.done {
		defer func() { o.done = true }()
		f()
	}
}

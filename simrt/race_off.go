//go:build !race

package simrt

import "unsafe"

// RaceBuild reports whether the binary was built with -race.
const RaceBuild = false

func raceDisable()                      {}
func raceEnable()                       {}
func raceAcquire(p unsafe.Pointer)      {}
func raceReleaseMerge(p unsafe.Pointer) {}
func raceErrors() int                   { return 0 }

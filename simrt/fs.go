package simrt

import (
	"io"
	"io/fs"
	"os"
	"syscall"
	"time"
)

// The simulated disk: a flat table path -> (data, mtime). Directories are implicit (a path is a
// directory if some file lies below it or MkdirAll created it). All state lives in norace code.

type fsEntry struct {
	path  string
	data  []byte
	mtime int64 // ns
	dir   bool
	live  bool
}

type simFS struct {
	ents []fsEntry
	n    int
	On   bool
}

func (f *simFS) init() { f.ents = make([]fsEntry, 256); f.n = 0 }

//go:norace
func (f *simFS) find(path string) int {
	for i := 0; i < f.n; i++ {
		if f.ents[i].live && f.ents[i].path == path {
			return i
		}
	}
	return -1
}

//go:norace
func (f *simFS) put(e fsEntry) {
	if i := f.find(e.path); i >= 0 {
		f.ents[i] = e
		return
	}
	for i := 0; i < f.n; i++ {
		if !f.ents[i].live {
			f.ents[i] = e
			return
		}
	}
	if f.n == len(f.ents) {
		n := make([]fsEntry, 2*len(f.ents))
		for i := 0; i < f.n; i++ {
			n[i] = f.ents[i]
		}
		f.ents = n
	}
	f.ents[f.n] = e
	f.n++
}

//go:norace
func hasDirPrefix(p, dir string) bool {
	if len(p) <= len(dir)+1 {
		return false
	}
	for i := 0; i < len(dir); i++ {
		if p[i] != dir[i] {
			return false
		}
	}
	return p[len(dir)] == '/'
}

//go:norace
func (f *simFS) isDir(path string) bool {
	if path == "." || path == "/" || path == "" {
		return true
	}
	for i := 0; i < f.n; i++ {
		e := &f.ents[i]
		if !e.live {
			continue
		}
		if e.dir && e.path == path {
			return true
		}
		if hasDirPrefix(e.path, path) {
			return true
		}
	}
	return false
}

// UseSimFS routes the os.* seams to the simulated disk for this world.
//
//go:norace
func (w *World) UseSimFS() { w.fs.On = true }

// FSWrite creates or replaces a file on the simulated disk (harness side, no faults, no hook).
//
//go:norace
func (w *World) FSWrite(path string, data []byte, mtimeNS int64) {
	d := make([]byte, len(data))
	for i := range data {
		d[i] = data[i]
	}
	w.fs.put(fsEntry{path: clean(path), data: d, mtime: mtimeNS, live: true})
}

// FSRemove deletes a file from the simulated disk (harness side).
//
//go:norace
func (w *World) FSRemove(path string) {
	if i := w.fs.find(clean(path)); i >= 0 {
		w.fs.ents[i].live = false
		w.fs.ents[i].data = nil
	}
}

// FSTouch sets a file's mtime.
//
//go:norace
func (w *World) FSTouch(path string, mtimeNS int64) {
	if i := w.fs.find(clean(path)); i >= 0 {
		w.fs.ents[i].mtime = mtimeNS
	}
}

// FSRead returns a copy of the stored bytes (harness side).
//
//go:norace
func (w *World) FSRead(path string) ([]byte, bool) {
	i := w.fs.find(clean(path))
	if i < 0 || w.fs.ents[i].dir {
		return nil, false
	}
	src := w.fs.ents[i].data
	d := make([]byte, len(src))
	for k := range src {
		d[k] = src[k]
	}
	return d, true
}

// FSFlip flips one bit of a stored file (fault "stored byte corruption").
//
//go:norace
func (w *World) FSFlip(path string, off int, mask byte) bool {
	i := w.fs.find(clean(path))
	if i < 0 || off >= len(w.fs.ents[i].data) {
		return false
	}
	w.fs.ents[i].data[off] ^= mask
	return true
}

// FSTruncate cuts a stored file (fault "torn write at rest").
//
//go:norace
func (w *World) FSTruncate(path string, n int) bool {
	i := w.fs.find(clean(path))
	if i < 0 || n > len(w.fs.ents[i].data) {
		return false
	}
	w.fs.ents[i].data = w.fs.ents[i].data[:n]
	return true
}

// clean is a minimal filepath.Clean for the forms twig produces (no "..", no doubled slashes
// beyond what filepath.Join already removed); it strips a leading "./" and trailing "/".
//
//go:norace
func clean(p string) string {
	for len(p) > 2 && p[0] == '.' && p[1] == '/' {
		p = p[2:]
	}
	for len(p) > 1 && p[len(p)-1] == '/' {
		p = p[:len(p)-1]
	}
	return p
}

type fileInfo struct {
	name  string
	size  int64
	mtime int64
	dir   bool
}

func (fi *fileInfo) Name() string { return fi.name }
func (fi *fileInfo) Size() int64  { return fi.size }
func (fi *fileInfo) Mode() fs.FileMode {
	if fi.dir {
		return fs.ModeDir | 0755
	}
	return 0644
}
func (fi *fileInfo) ModTime() time.Time { return time.Unix(0, fi.mtime) }
func (fi *fileInfo) IsDir() bool        { return fi.dir }
func (fi *fileInfo) Sys() interface{}   { return nil }

// dirEntry implements fs.DirEntry
type dirEntry struct{ fi *fileInfo }

func (d dirEntry) Name() string               { return d.fi.name }
func (d dirEntry) IsDir() bool                { return d.fi.dir }
func (d dirEntry) Type() fs.FileMode          { return d.fi.Mode().Type() }
func (d dirEntry) Info() (fs.FileInfo, error) { return d.fi, nil }

//go:norace
func base(p string) string {
	for i := len(p) - 1; i >= 0; i-- {
		if p[i] == '/' {
			return p[i+1:]
		}
	}
	return p
}

func (w *World) fsPre(op, path string) error {
	Yield()
	w.countFS()
	if h := w.FSHook; h != nil {
		if err := h(op, path); err != nil {
			w.countFSFault()
			return err
		}
	}
	return nil
}

//go:norace
func (w *World) countFS() { w.Stat[StFSOps]++; w.record("fs.op", -1, 0) }

//go:norace
func (w *World) countFSFault() { w.Stat[StFSFaults]++; w.record("fs.fault", -1, 0) }

// OsStat replaces os.Stat.
func OsStat(name string) (os.FileInfo, error) {
	w := W
	if w == nil || !w.fs.On {
		return os.Stat(name)
	}
	if err := w.fsPre("stat", name); err != nil {
		return nil, &fs.PathError{Op: "stat", Path: name, Err: err}
	}
	fi := w.statNR(clean(name))
	Yield()
	if fi == nil {
		return nil, &fs.PathError{Op: "stat", Path: name, Err: syscall.ENOENT}
	}
	return fi, nil
}

//go:norace
func (w *World) statNR(p string) *fileInfo {
	if i := w.fs.find(p); i >= 0 {
		e := &w.fs.ents[i]
		return &fileInfo{name: base(p), size: int64(len(e.data)), mtime: e.mtime, dir: e.dir}
	}
	if w.fs.isDir(p) {
		return &fileInfo{name: base(p), dir: true}
	}
	return nil
}

// OsReadFile replaces os.ReadFile.
func OsReadFile(name string) ([]byte, error) {
	w := W
	if w == nil || !w.fs.On {
		return os.ReadFile(name)
	}
	if err := w.fsPre("read", name); err != nil {
		return nil, &fs.PathError{Op: "read", Path: name, Err: err}
	}
	d, st := w.readNR(clean(name))
	Yield()
	switch st {
	case 1:
		return nil, &fs.PathError{Op: "open", Path: name, Err: syscall.ENOENT}
	case 2:
		return nil, &fs.PathError{Op: "read", Path: name, Err: syscall.EISDIR}
	}
	return d, nil
}

//go:norace
func (w *World) readNR(p string) ([]byte, int) {
	i := w.fs.find(p)
	if i < 0 {
		if w.fs.isDir(p) {
			return nil, 2
		}
		return nil, 1
	}
	if w.fs.ents[i].dir {
		return nil, 2
	}
	src := w.fs.ents[i].data
	d := make([]byte, len(src))
	for k := range src {
		d[k] = src[k]
	}
	return d, 0
}

// ShortWrite is returned by an FSHook to request a torn write: the first N bytes reach the disk
// and the call fails with Err.
type ShortWrite struct {
	N   int
	Err error
}

func (s *ShortWrite) Error() string { return "short write: " + s.Err.Error() }
func (s *ShortWrite) Unwrap() error { return s.Err }

// OsWriteFile replaces os.WriteFile.
func OsWriteFile(name string, data []byte, perm os.FileMode) error {
	w := W
	if w == nil || !w.fs.On {
		return os.WriteFile(name, data, perm)
	}
	if err := w.fsPre("write", name); err != nil {
		if sw, ok := err.(*ShortWrite); ok {
			n := sw.N
			if n > len(data) {
				n = len(data)
			}
			w.writeNR(clean(name), data[:n])
			return &fs.PathError{Op: "write", Path: name, Err: sw.Err}
		}
		return &fs.PathError{Op: "open", Path: name, Err: err}
	}
	w.writeNR(clean(name), data)
	Yield()
	return nil
}

//go:norace
func (w *World) writeNR(p string, data []byte) {
	d := make([]byte, len(data))
	for i := range data {
		d[i] = data[i]
	}
	w.fs.put(fsEntry{path: p, data: d, mtime: w.now, live: true})
}

// OsMkdirAll replaces os.MkdirAll.
func OsMkdirAll(path string, perm os.FileMode) error {
	w := W
	if w == nil || !w.fs.On {
		return os.MkdirAll(path, perm)
	}
	if err := w.fsPre("mkdir", path); err != nil {
		return &fs.PathError{Op: "mkdir", Path: path, Err: err}
	}
	w.mkdirNR(clean(path))
	return nil
}

//go:norace
func (w *World) mkdirNR(p string) {
	if w.fs.find(p) < 0 {
		w.fs.put(fsEntry{path: p, dir: true, mtime: w.now, live: true})
	}
}

// OsRemove replaces os.Remove.
func OsRemove(name string) error {
	w := W
	if w == nil || !w.fs.On {
		return os.Remove(name)
	}
	if err := w.fsPre("remove", name); err != nil {
		return &fs.PathError{Op: "remove", Path: name, Err: err}
	}
	if _, ok := w.FSRead(name); !ok {
		return &fs.PathError{Op: "remove", Path: name, Err: syscall.ENOENT}
	}
	w.FSRemove(name)
	return nil
}

// OsReadDir replaces os.ReadDir (sorted by name, as the real one).
func OsReadDir(name string) ([]os.DirEntry, error) {
	w := W
	if w == nil || !w.fs.On {
		return os.ReadDir(name)
	}
	if err := w.fsPre("readdir", name); err != nil {
		return nil, &fs.PathError{Op: "open", Path: name, Err: err}
	}
	p := clean(name)
	infos, ok := w.readDirNR(p)
	if !ok {
		return nil, &fs.PathError{Op: "open", Path: name, Err: syscall.ENOENT}
	}
	// insertion sort by name
	for i := 1; i < len(infos); i++ {
		for j := i; j > 0 && infos[j].name < infos[j-1].name; j-- {
			infos[j], infos[j-1] = infos[j-1], infos[j]
		}
	}
	out := make([]os.DirEntry, 0, len(infos))
	for i, fi := range infos {
		if i > 0 && infos[i-1].name == fi.name {
			continue
		}
		out = append(out, dirEntry{fi})
	}
	return out, nil
}

//go:norace
func (w *World) readDirNR(p string) ([]*fileInfo, bool) {
	if !w.fs.isDir(p) {
		return nil, false
	}
	res := make([]*fileInfo, 0, 8)
	for i := 0; i < w.fs.n; i++ {
		e := &w.fs.ents[i]
		if !e.live || !hasDirPrefix(e.path, p) {
			continue
		}
		rest := e.path[len(p)+1:]
		child := rest
		isdir := e.dir
		for k := 0; k < len(rest); k++ {
			if rest[k] == '/' {
				child = rest[:k]
				isdir = true
				break
			}
		}
		if len(res) == cap(res) {
			n := make([]*fileInfo, len(res), 2*cap(res))
			for k := range res {
				n[k] = res[k]
			}
			res = n
		}
		res = res[:len(res)+1]
		res[len(res)-1] = &fileInfo{name: child, size: int64(len(e.data)), mtime: e.mtime, dir: isdir}
	}
	return res, true
}

// File replaces *os.File for the common read / write idioms (os.Open, os.Create, os.OpenFile). A file
// opened for writing reaches the simulated disk when it is closed (or synced).
type File struct {
	w      *World
	name   string
	path   string
	data   []byte
	off    int64
	write  bool
	closed bool
	real   *os.File
}

// OsOpen replaces os.Open.
func OsOpen(name string) (*File, error) {
	w := W
	if w == nil || !w.fs.On {
		f, err := os.Open(name)
		if err != nil {
			return nil, err
		}
		return &File{real: f, name: name}, nil
	}
	if err := w.fsPre("read", name); err != nil {
		return nil, &fs.PathError{Op: "open", Path: name, Err: err}
	}
	d, st := w.readNR(clean(name))
	if st == 1 {
		return nil, &fs.PathError{Op: "open", Path: name, Err: syscall.ENOENT}
	}
	if st == 2 {
		return &File{w: w, name: name, path: clean(name)}, nil // a directory handle
	}
	return &File{w: w, name: name, path: clean(name), data: d}, nil
}

// OsCreate replaces os.Create.
func OsCreate(name string) (*File, error) {
	return OsOpenFile(name, os.O_RDWR|os.O_CREATE|os.O_TRUNC, 0666)
}

// OsOpenFile replaces os.OpenFile.
func OsOpenFile(name string, flag int, perm os.FileMode) (*File, error) {
	w := W
	if w == nil || !w.fs.On {
		f, err := os.OpenFile(name, flag, perm)
		if err != nil {
			return nil, err
		}
		return &File{real: f, name: name}, nil
	}
	if flag&(os.O_WRONLY|os.O_RDWR|os.O_CREATE|os.O_APPEND|os.O_TRUNC) == 0 {
		return OsOpen(name)
	}
	if err := w.fsPre("write", name); err != nil {
		return nil, &fs.PathError{Op: "open", Path: name, Err: err}
	}
	f := &File{w: w, name: name, path: clean(name), write: true}
	if flag&os.O_TRUNC == 0 {
		if d, st := w.readNR(f.path); st == 0 {
			f.data = d
			if flag&os.O_APPEND != 0 {
				f.off = int64(len(d))
			}
		} else if flag&os.O_CREATE == 0 {
			return nil, &fs.PathError{Op: "open", Path: name, Err: syscall.ENOENT}
		}
	}
	return f, nil
}

func (f *File) Name() string { return f.name }

func (f *File) Read(p []byte) (int, error) {
	if f.real != nil {
		return f.real.Read(p)
	}
	if f.off >= int64(len(f.data)) {
		return 0, io.EOF
	}
	n := copy(p, f.data[f.off:])
	f.off += int64(n)
	return n, nil
}

func (f *File) ReadAt(p []byte, off int64) (int, error) {
	if f.real != nil {
		return f.real.ReadAt(p, off)
	}
	if off >= int64(len(f.data)) {
		return 0, io.EOF
	}
	n := copy(p, f.data[off:])
	if n < len(p) {
		return n, io.EOF
	}
	return n, nil
}

func (f *File) Seek(offset int64, whence int) (int64, error) {
	if f.real != nil {
		return f.real.Seek(offset, whence)
	}
	switch whence {
	case io.SeekStart:
		f.off = offset
	case io.SeekCurrent:
		f.off += offset
	case io.SeekEnd:
		f.off = int64(len(f.data)) + offset
	}
	return f.off, nil
}

func (f *File) Write(p []byte) (int, error) {
	if f.real != nil {
		return f.real.Write(p)
	}
	if !f.write {
		return 0, &fs.PathError{Op: "write", Path: f.name, Err: syscall.EBADF}
	}
	end := f.off + int64(len(p))
	if end > int64(len(f.data)) {
		nd := make([]byte, end)
		copy(nd, f.data)
		f.data = nd
	}
	copy(f.data[f.off:], p)
	f.off = end
	return len(p), nil
}

func (f *File) WriteString(s string) (int, error) { return f.Write([]byte(s)) }

func (f *File) Sync() error {
	if f.real != nil {
		return f.real.Sync()
	}
	if f.write {
		f.w.writeNR(f.path, f.data)
	}
	return nil
}

func (f *File) Close() error {
	if f.real != nil {
		return f.real.Close()
	}
	if f.closed {
		return &fs.PathError{Op: "close", Path: f.name, Err: os.ErrClosed}
	}
	f.closed = true
	if f.write {
		f.w.writeNR(f.path, f.data)
	}
	Yield()
	return nil
}

func (f *File) Stat() (os.FileInfo, error) {
	if f.real != nil {
		return f.real.Stat()
	}
	if f.write {
		return &fileInfo{name: base(f.path), size: int64(len(f.data)), mtime: f.w.now}, nil
	}
	if fi := f.w.statNR(f.path); fi != nil {
		return fi, nil
	}
	return nil, &fs.PathError{Op: "stat", Path: f.name, Err: syscall.ENOENT}
}

func (f *File) ReadDir(n int) ([]os.DirEntry, error) {
	if f.real != nil {
		return f.real.ReadDir(n)
	}
	return OsReadDir(f.name)
}

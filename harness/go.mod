module verif/harness

go 1.24.1

require (
	github.com/anishathalye/porcupine v1.3.0
	github.com/semihalev/twig v0.0.0
	simrt v0.0.0
)

replace github.com/semihalev/twig => ../twig

replace simrt => ../simrt

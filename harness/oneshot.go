package main

import (
	"bytes"
	"encoding/json"
	"fmt"
	"io"
	"os"
	"os/exec"
	"regexp"
	"sort"

	"github.com/semihalev/twig"
)

// oneshot: render one case on a fresh engine in a fresh process. The check builds a second binary of
// this harness against the UNINSTRUMENTED working tree (plus the export file) and uses it for C01's
// oracle O3 ("what a freshly created engine returns in a fresh process"), which also validates the
// instrumenter's rewrite end to end on the harness's own workload.

type oneshotCase struct {
	Templates map[string]string `json:"templates"`
	Debug     bool              `json:"debug"`
	Main      string            `json:"main"`
	Ctx       *Val              `json:"ctx"`
	Late      [][2]string       `json:"late_globals,omitempty"`
}

func init() {
	extraCmds["oneshot"] = func(args []string) {
		var c oneshotCase
		if err := json.NewDecoder(os.Stdin).Decode(&c); err != nil {
			fmt.Fprintln(os.Stderr, "oneshot:", err)
			os.Exit(2)
		}
		twig.SetDebugWriter(io.Discard)
		e := twig.New()
		names := make([]string, 0, len(c.Templates))
		m := map[string]string{}
		for n, s := range c.Templates {
			names = append(names, n)
			m[n] = s
		}
		sort.Strings(names)
		e.RegisterLoader(twig.NewArrayLoader(m))
		hub := &spyHub{per: []*Spies{newSpies()}}
		installSpies(e, hub)
		for _, g := range c.Late {
			applyLate(e, g[0], g[1])
		}
		if c.Debug {
			e.SetDebug(true)
		}
		for _, n := range names {
			e.RegisterString(n, m[n])
		}
		o := observe(hub.per[0], func() (string, error) { return e.Render(c.Main, BuildCtx(c.Ctx, 0)) })
		json.NewEncoder(os.Stdout).Encode(o)
	}
}

var reUsesMaps = regexp.MustCompile(`\b(m1|m2|mi|nm|si)\b|Meta|\{'|json_encode`)

// runOneshot executes the plain binary; ok=false means the cross-check could not run (reported as
// harness trouble by the caller, never as a violation).
func runOneshot(c *oneshotCase) (Obs, bool) {
	bin := os.Getenv("VERIF_ONESHOT")
	if bin == "" {
		return Obs{}, false
	}
	in, _ := json.Marshal(c)
	cmd := exec.Command(bin, "oneshot")
	cmd.Stdin = bytes.NewReader(in)
	out, err := cmd.Output()
	if err != nil {
		return Obs{}, false
	}
	var o Obs
	if json.Unmarshal(out, &o) != nil {
		return Obs{}, false
	}
	return o, true
}

package main

import (
	"bytes"
	"encoding/gob"
	"encoding/hex"
	"encoding/json"
	"fmt"
	"io"
	"strings"
	"syscall"

	"github.com/semihalev/twig"
	"simrt"
)

// C16 — a compiled template is interchangeable with its source.

type c16Raw struct {
	Name    string `json:"name"`
	Kind    string `json:"kind"` // how Source is produced: hex | repeat
	Hex     string `json:"hex,omitempty"`
	Repeat  int    `json:"repeat,omitempty"`
	LastMod int64  `json:"last_mod"`
	CompT   int64  `json:"compile_time"`
	ASTHex  string `json:"ast_hex,omitempty"`
}

func (r c16Raw) source() string {
	b, _ := hex.DecodeString(r.Hex)
	if r.Kind == "repeat" {
		return strings.Repeat(string(b), r.Repeat)
	}
	if r.Kind == "exact" { // exactly r.Repeat bytes, starting with the pattern
		if len(b) == 0 {
			b = []byte("x")
		}
		s := strings.Repeat(string(b), r.Repeat/len(b)+1)
		return s[:r.Repeat]
	}
	return string(b)
}

type c16Fault struct {
	Op   string `json:"op"`   // write read stat mkdir readdir
	Nth  int    `json:"nth"`  // 1-based occurrence of that op
	Kind string `json:"kind"` // enospc short eio enoent
}

type c16Sc struct {
	WorldSeed  uint64     `json:"world_seed"`
	Pool       int        `json:"pool"`
	Drop       int        `json:"drop"`
	ClockStart int64      `json:"clock_start_s"`
	ClockStep  int64      `json:"clock_step"`
	Prog       *Program   `json:"prog"`
	Raws       []c16Raw   `json:"raws"`
	Via        string     `json:"via"`                   // bytes | disk | loadall
	NamePrefix string     `json:"name_prefix,omitempty"` // bytes mode only: every template name gets this prefix (names are opaque keys)
	WarmB      bool       `json:"warm_b"`
	Faults     []c16Fault `json:"faults"`
}

type propC16 struct{}

func init() { register(propC16{}) }

func (propC16) ID() string    { return "C16" }
func (propC16) Race() bool    { return false }
func (propC16) Level() string { return "exploration" }
func (propC16) Rule() string {
	return "one run = a generated template set registered on engine A under a simulated clock (start values 0, negative, >2^32 s), every template compiled and serialised back-to-back (all byte slices kept, pooled serialisation buffer recycled lifo/random), handed to engine B either as bytes (LoadFromCompiledData), through CompiledLoader files on the simulated disk, or through CompiledLoader.LoadAll; B optionally has a prior render history so that pooled nodes/buffers are recycled; then the same context is rendered on both. Plus raw round trips of empty, 70 KiB, binary and invalid-UTF-8 sources/names/AST bytes with extreme timestamps. Fault configuration (separate runs): ENOSPC / short write / EIO / ENOENT on the n-th disk operation: an operation may fail, but if save and load both succeeded the equalities must hold. distinct = distinct event-log hash; non-trivial = the run went through the disk or recycled a pooled buffer"
}
func (propC16) Assumptions() []string {
	return []string{
		"the simulated disk returns only errors a real disk returns; directories are implicit (more permissive than a real disk, never less)",
		"CompileTime is taken from the clock at compile time and is therefore compared only within one compile→serialise→deserialise chain",
		"stored-byte corruption and torn files are not part of the property (only counted as probes)",
	}
}
func (propC16) MainFaults() []string {
	return []string{"roundtrips", "renders_compared", "via_disk", "fs_faults_fired"}
}

func (propC16) Decode(raw []byte) (interface{}, error) {
	var sc c16Sc
	err := json.Unmarshal(raw, &sc)
	return &sc, err
}

func (propC16) Gen(seed uint64, ex map[string]bool) interface{} {
	r := newR(seed)
	sc := &c16Sc{WorldSeed: simrt.Mix(seed, 6)}
	sc.Pool = pick(r, []int{simrt.PoolLIFO, simrt.PoolLIFO, simrt.PoolRandom, simrt.PoolFIFO})
	sc.Drop = pick(r, []int{0, 0, 25})
	sc.ClockStart = pick(r, []int64{1_700_000_000, 0, -5, 1 << 33, 1, 4102444800})
	sc.ClockStep = pick(r, []int64{0, 1e9, 1e6})
	f := Feat{Spies: true, MapLoops: true, Include: r.P(70), Inherit: r.P(40), Macros: r.P(50), ErrorsPct: 10, Sandbox: true, SpyPrefix: "c", RelPaths: r.P(35)}
	sc.Prog = genProgram(r, f)
	// flat names for the disk
	ren := map[string]string{}
	for i := range sc.Prog.Templates {
		n := sc.Prog.Templates[i].Name
		ren[n] = strings.ReplaceAll(n, "/", "_")
	}
	sc.Via = pick(r, []string{"bytes", "disk", "disk", "loadall"})
	sc.WarmB = r.P(50)
	if sc.Via == "bytes" && r.P(50) {
		sc.NamePrefix = pick(r, []string{"./", "a//", "d/../", "../", "x/./", " ", "/", "A", "é/"})
	}
	nr := r.N(3)
	for i := 0; i < nr; i++ {
		raw := c16Raw{Name: pick(r, []string{"raw", "", "dir/x", "n\x00m", "\xff\xfe"}), Kind: "hex",
			LastMod: pick(r, []int64{0, -1, 1 << 40, 1700000000, -1 << 62}), CompT: pick(r, []int64{0, 1, -7, 1 << 35})}
		switch r.N(5) {
		case 0:
			raw.Hex = ""
		case 1:
			raw.Hex = hex.EncodeToString([]byte("{{ a }}\x00\xff\xfe binary \x80"))
		case 2:
			raw.Kind, raw.Hex, raw.Repeat = "repeat", hex.EncodeToString([]byte("0123456789abcdef{{ x }}\n")), 3000 // ~70 KiB
		case 3:
			raw.Hex = hex.EncodeToString([]byte("été 日本 {% if %}"))
		default:
			raw.Hex = hex.EncodeToString([]byte{0xc3, 0x28, 0xa0, 0xa1, 0xe2, 0x28, 0xa1})
		}
		if r.P(50) {
			raw.ASTHex = hex.EncodeToString([]byte{0, 1, 2, 0xff, byte(r.N(256))})
		}
		if r.P(35) {
			// exact lengths around the boundaries of plausible length encodings (1, 2, 3 byte prefixes, varints)
			n := pick(r, []int{127, 128, 255, 256, 16383, 16384, 32767, 32768, 65534, 65535, 65536, 65537, 1<<21 - 1, 1 << 21})
			raw.Kind, raw.Hex, raw.Repeat = "exact", hex.EncodeToString([]byte(pick(r, []string{"x", "\x03\x00\x00\x00", "ab", "\xff"}))), n
			if r.P(30) && n <= 70000 {
				raw.Name = strings.Repeat("n", n) // the name field has a length prefix too
			}
		}
		sc.Raws = append(sc.Raws, raw)
	}
	if r.P(2) {
		// now and then a really large source (several MiB): the format's length prefixes are 32 bits wide
		sc.Raws = append(sc.Raws, c16Raw{Name: "huge", Kind: "exact", Hex: hex.EncodeToString([]byte("0123456789abcdef")), Repeat: pick(r, []int{4<<20 + 1, 5 << 20, 9<<20 + 7}), LastMod: 1, CompT: 2})
	}
	if r.P(30) && sc.Via != "bytes" && !ex["disk-faults"] {
		nf := r.Range(1, 2)
		for i := 0; i < nf; i++ {
			op := pick(r, []string{"write", "write", "read", "stat", "mkdir", "readdir"})
			kind := "eio"
			switch op {
			case "write":
				kind = pick(r, []string{"enospc", "short", "eio"})
			case "stat", "read":
				kind = pick(r, []string{"eio", "enoent"})
			}
			sc.Faults = append(sc.Faults, c16Fault{Op: op, Nth: r.Range(1, 4), Kind: kind})
		}
	}
	return sc
}

func sameCompiled(a, b *twig.CompiledTemplate) string {
	switch {
	case a.Name != b.Name:
		return "name"
	case a.Source != b.Source:
		return "source"
	case a.LastModified != b.LastModified:
		return "LastModified"
	case a.CompileTime != b.CompileTime:
		return "CompileTime"
	case !bytes.Equal(a.AST, b.AST):
		return "AST"
	}
	return ""
}

func (propC16) Run(scI interface{}) (o *Outcome) {
	sc := scI.(*c16Sc)
	o = &Outcome{Probes: map[string]int64{}}
	start := sc.ClockStart * 1e9
	w := simrt.Begin(simrt.Config{PreemptDen: 4, Seed: sc.WorldSeed, PoolPolicy: sc.Pool, PoolDropPct: sc.Drop, MapOrder: simrt.OrderSorted, ClockStart: start, ClockStep: sc.ClockStep})
	defer simrt.End()
	defer underScheduler(w, o)()
	w.UseSimFS()
	twig.SetDebugWriter(io.Discard)
	saved := twig.VerifSwapGlobals(nil)
	defer twig.VerifSwapGlobals(saved)
	defer func() {
		o.FP = w.Fingerprint()
		o.Stats = w.Stat
		o.SimNS = w.NowNS() - start
		if o.SimNS < 0 {
			o.SimNS = 0
		}
	}()
	fail := func(sig, detail string) *Outcome {
		o.Viol = &Violation{Oracle: "compiled-roundtrip", Sig: sig, Detail: detail}
		return o
	}
	counts := map[string]int{}
	faulted := false
	w.FSHook = func(op, path string) error {
		counts[op]++
		for _, f := range sc.Faults {
			if f.Op == op && f.Nth == counts[op] {
				faulted = true
				o.Probes["fs_faults_fired"]++
				switch f.Kind {
				case "enospc":
					return syscall.ENOSPC
				case "short":
					return &simrt.ShortWrite{N: 7, Err: syscall.ENOSPC}
				case "enoent":
					return syscall.ENOENT
				default:
					return syscall.EIO
				}
			}
		}
		return nil
	}
	if len(sc.Faults) == 0 {
		o.Probes["fs_faults_fired"] = 0
	}
	flat := func(n string) string { return sc.NamePrefix + strings.ReplaceAll(n, "/", "_") }
	srcs := map[string]string{}
	for _, t := range sc.Prog.Templates {
		s := t.Src()
		for _, t2 := range sc.Prog.Templates {
			s = strings.ReplaceAll(s, "'"+t2.Name+"'", "'"+flat(t2.Name)+"'")
		}
		srcs[flat(t.Name)] = s
	}
	// a twin pair `x` / `x.twig`: distinct templates whose names differ only by the usual suffix
	twinBase := flat("twin")
	srcs[twinBase] = "twin-plain {{ 1 + 1 }}"
	srcs[twinBase+".twig"] = "twin-suffixed {{ 2 + 2 }}"
	mainName := flat(sc.Prog.Main)
	if sc.WorldSeed%5 == 0 {
		// a source that starts with a UTF-8 byte-order mark (literal text like any other)
		srcs[mainName] = "\xef\xbb\xbf" + srcs[mainName]
	}
	if sc.WorldSeed%7 == 3 && !strings.Contains(sc.NamePrefix, "\u00e9") {
		// sources in a legacy single-byte encoding (not valid UTF-8): template text is bytes, not characters
		// (template NAMES stay valid: an extends/import tag naming '\xe9/x' panics in the tokenizer, DESIGN §8)
		for n, s := range srcs {
			if strings.Contains(s, "\u00e9") {
				srcs[n] = strings.ReplaceAll(s, "\u00e9", "\xe9")
				o.Probes["source_not_utf8"]++
			}
		}
		srcs[twinBase] = "caf\xe9 " + srcs[twinBase]
	}
	hubA := &spyHub{per: []*Spies{newSpies()}}
	A := twig.New()
	installSpies(A, hubA)
	var names []string
	for _, t := range sc.Prog.Templates {
		n := flat(t.Name)
		if err := A.RegisterString(n, srcs[n]); err == nil {
			names = append(names, n)
		}
		w.AdvanceClock(1e9)
	}
	for _, n := range []string{twinBase, twinBase + ".twig"} {
		if err := A.RegisterString(n, srcs[n]); err == nil {
			names = append(names, n)
		}
	}
	// a template without any content
	srcs["empty"] = ""
	if err := A.RegisterString("empty", ""); err == nil {
		names = append(names, "empty")
	}
	// names with dots inside (file name mapping must not cut them)
	if sc.Via != "bytes" {
		// on the disk: a name in a sub-directory next to the name one gets by folding the separator
		for _, n := range []string{"pair/one", "pair_one"} {
			srcs[n] = "pair " + n + " {{ 4 + 4 }}"
			if err := A.RegisterString(n, srcs[n]); err == nil {
				names = append(names, n)
			}
		}
	}
	for _, d := range []string{"mail.welcome", "v1.2-footer", "page.html"} {
		n := flat(d)
		srcs[n] = "dotted " + d + " {{ 3 + 3 }}"
		if err := A.RegisterString(n, srcs[n]); err == nil {
			names = append(names, n)
		}
	}
	if sc.WorldSeed%7 == 0 {
		w.AdvanceClock(-7200e9) // the clock steps back: templates now carry a LastModified later than their CompileTime
	}
	// compile + serialise everything back-to-back, keep all slices
	type ser struct {
		name string
		c    *twig.CompiledTemplate
		data []byte
		copy []byte
	}
	var sers []ser
	for _, n := range names {
		c, err := A.CompileTemplate(n)
		if err != nil {
			return fail("compile of a registered template failed", fmt.Sprintf("%s: %v", n, err))
		}
		_, src, lm, _ := twig.VerifTemplateMeta(twig.VerifCached(A)[n])
		if c.Name != n || c.Source != src || c.LastModified != lm {
			return fail("compiled form does not carry the template's name/source/timestamp", fmt.Sprintf("%s: %+v vs (%q,%d)", n, c, src, lm))
		}
		d, err := twig.SerializeCompiledTemplate(c)
		if err != nil {
			return fail("serialise failed", fmt.Sprintf("%s: %v", n, err))
		}
		sers = append(sers, ser{n, c, d, append([]byte(nil), d...)})
	}
	if sc.Via != "bytes" {
		// a template the source engine holds under a cache key that is not its own name (parsed, then registered as an
		// object): its stored form carries the template's name (""), the file carries the key
		srcs["byobj"] = "by-object {{ 5 + 5 }}"
		if t, err := A.ParseTemplate(srcs["byobj"]); err == nil {
			A.RegisterTemplate("byobj", t)
			names = append(names, "byobj")
		}
	}
	for _, raw := range sc.Raws {
		ast, _ := hex.DecodeString(raw.ASTHex)
		c := &twig.CompiledTemplate{Name: raw.Name, Source: raw.source(), LastModified: raw.LastMod, CompileTime: raw.CompT, AST: ast}
		d, err := twig.SerializeCompiledTemplate(c)
		if err != nil {
			return fail("serialise failed", fmt.Sprintf("raw %q: %v", raw.Name, err))
		}
		sers = append(sers, ser{"\x00raw", c, d, append([]byte(nil), d...)})
	}
	for i, s := range sers {
		if !bytes.Equal(s.data, s.copy) {
			return fail("serialised bytes changed after a later serialisation (aliases a pooled buffer)", fmt.Sprintf("serialisation #%d (%q)", i, s.name))
		}
		back, err := twig.DeserializeCompiledTemplate(s.data)
		if err != nil {
			return fail("deserialise of serialised bytes failed", fmt.Sprintf("#%d %q len(source)=%d: %v", i, s.c.Name, len(s.c.Source), err))
		}
		if f := sameCompiled(s.c, back); f != "" {
			return fail("serialise→deserialise does not reproduce "+f, fmt.Sprintf("#%d name=%q len(source)=%d lastmod=%d ct=%d -> name=%q len=%d lastmod=%d ct=%d", i, s.c.Name, len(s.c.Source), s.c.LastModified, s.c.CompileTime, back.Name, len(back.Source), back.LastModified, back.CompileTime))
		}
		o.Probes["roundtrips"]++
		// the old gob encoding of the same value must still decode to the same fields
		var gb bytes.Buffer
		if err := gob.NewEncoder(&gb).Encode(s.c); err == nil && i%3 == 0 {
			old, err := twig.DeserializeCompiledTemplate(gb.Bytes())
			if err != nil {
				return fail("deserialise of the legacy gob encoding failed", fmt.Sprintf("#%d %q: %v", i, s.c.Name, err))
			}
			if f := sameCompiled(s.c, old); f != "" {
				return fail("legacy gob encoding does not reproduce "+f, fmt.Sprintf("#%d %q", i, s.c.Name))
			}
			o.Probes["gob_roundtrips"]++
		}
	}
	// Template.SaveCompiled is the one-call form of compile+serialise
	for _, n := range names {
		t := twig.VerifCached(A)[n]
		if t == nil {
			continue
		}
		data, err := t.SaveCompiled()
		if err != nil {
			return fail("Template.SaveCompiled failed", fmt.Sprintf("%s: %v", n, err))
		}
		back, err := twig.DeserializeCompiledTemplate(data)
		if err != nil {
			return fail("deserialise of Template.SaveCompiled bytes failed", fmt.Sprintf("%s: %v", n, err))
		}
		own, src, lm, _ := twig.VerifTemplateMeta(t)
		if back.Name != own || back.Source != src || back.LastModified != lm {
			return fail("Template.SaveCompiled does not reproduce name/source/LastModified", n)
		}
	}
	// engine B
	hubB := &spyHub{per: []*Spies{newSpies()}}
	B := twig.New()
	installSpies(B, hubB)
	switch sc.WorldSeed % 6 {
	case 4:
		// "any engine": both sides in debug mode
		A.SetDebug(true)
		B.SetDebug(true)
		o.Probes["both_engines_in_debug_mode"]++
	case 5:
		// the target checks timestamps on every call (the compiled loader is timestamp-aware)
		B.SetAutoReload(true)
		o.Probes["target_auto_reload"]++
	}
	if sc.WarmB {
		B.RegisterString("warm", "{% for i in [1,2,3] %}{{ i|upper }}{% if i %}x{% endif %}{% endfor %}{{ {'a': 1}|json_encode }}")
		for i := 0; i < 2; i++ {
			B.Render("warm", nil)
		}
		if sc.Via == "bytes" {
			// the target already holds an older release under every name, registered LATER than the source engine's
			w.AdvanceClock(5e9)
			for _, n := range names {
				B.RegisterString(n, "previous release of "+n)
			}
		}
	}
	transferred := true
	switch sc.Via {
	case "bytes":
		var other *twig.Engine
		if sc.WorldSeed%4 == 1 {
			// the compiled OBJECT itself is handed to an unrelated engine first (other callbacks, other globals,
			// none of the partials) and then to the target: "registering the result on any engine"
			other = twig.New()
			installSpies(other, &spyHub{per: []*Spies{newSpies()}})
			other.AddGlobal("g1", "OTHER")
			other.SetDebug(true)
			o.Probes["compiled_object_registered_on_two_engines"]++
		}
		for _, s := range sers {
			if s.name == "\x00raw" {
				continue
			}
			if other != nil {
				other.RegisterCompiledTemplate(s.c)
				if err := B.RegisterCompiledTemplate(s.c); err != nil {
					return fail("RegisterCompiledTemplate failed on a compiled template", fmt.Sprintf("%s: %v", s.name, err))
				}
				continue
			}
			if err := B.LoadFromCompiledData(s.data); err != nil {
				return fail("LoadFromCompiledData failed on serialised bytes", fmt.Sprintf("%s: %v", s.name, err))
			}
			if sc.WorldSeed%3 == 0 {
				// the caller reuses its buffer once the call has returned (reading the next file into it, say)
				for k := range s.data {
					s.data[k] = 'X'
				}
				o.Probes["caller_buffers_reused"]++
			}
		}
	default:
		o.Probes["via_disk"]++
		clA := twig.NewCompiledLoader("cache")
		if sc.WorldSeed%2 == 0 {
			// CompileAll saves every cached template of the engine in one call
			if err := clA.CompileAll(A); err != nil {
				if !faulted {
					return fail("CompileAll failed without a disk fault", err.Error())
				}
				transferred = false
			}
			o.Probes["compile_all"]++
		} else {
			for _, n := range names {
				if err := clA.SaveCompiled(A, n); err != nil {
					if !faulted {
						return fail("SaveCompiled failed without a disk fault", fmt.Sprintf("%s: %v", n, err))
					}
					transferred = false
				}
			}
		}
		if transferred && !faulted {
			for _, n := range names {
				fb, ok := w.FSRead("cache/" + n + ".twig.compiled")
				if !ok {
					return fail("SaveCompiled reported success but wrote no file", n)
				}
				back, err := twig.DeserializeCompiledTemplate(fb)
				if err != nil {
					return fail("file written by the compiled loader does not deserialise", fmt.Sprintf("%s: %v", n, err))
				}
				own, src, lm, _ := twig.VerifTemplateMeta(twig.VerifCached(A)[n])
				if back.Name != own || back.Source != src || back.LastModified != lm {
					return fail("file written by the compiled loader reads back differently", fmt.Sprintf("%s: name=%q lastmod=%d vs %d", n, back.Name, back.LastModified, lm))
				}
			}
		}
		clB := twig.NewCompiledLoader("cache")
		if sc.Via == "loadall" {
			if err := clB.LoadAll(B); err != nil {
				if !faulted && len(names) > 0 {
					return fail("LoadAll failed without a disk fault", err.Error())
				}
				transferred = false
			}
		} else {
			B.RegisterLoader(clB)
			if transferred && !faulted {
				for _, n := range names {
					if !clB.Exists(n) && !faulted {
						return fail("the compiled loader denies a template it has just saved", n)
					}
				}
				if sc.WorldSeed%3 == 1 {
					// explicit pre-loading, one name at a time
					for _, n := range names {
						if err := clB.LoadCompiled(B, n); err != nil && !faulted {
							return fail("LoadCompiled failed without a disk fault", fmt.Sprintf("%s: %v", n, err))
						}
					}
					o.Probes["load_compiled"]++
				}
			}
		}
	}
	o.Nontrivial = sc.Via != "bytes" || w.Stat[simrt.StPoolReuse] > 0
	if transferred && !faulted {
		for _, n := range names {
			t, err := B.Load(n)
			if faulted {
				break // a read fault configured for a later operation fired here
			}
			if err != nil {
				return fail("a transferred template cannot be loaded on the target engine", fmt.Sprintf("%s (via %s): %v", n, sc.Via, err))
			}
			if _, src, _, _ := twig.VerifTemplateMeta(t); src != srcs[n] {
				return fail("a transferred template has another template's (or an older) source on the target engine", fmt.Sprintf("%s (via %s): got %q want %q", n, sc.Via, tail(src, 120), tail(srcs[n], 120)))
			}
			o.Probes["sources_compared_on_target"]++
		}
	}
	if !transferred {
		o.Probes["transfer_failed_by_fault"]++
		return o
	}
	// render the same context on both
	spA, spB := newSpies(), newSpies()
	hubA.per[0], hubB.per[0] = spA, spB
	a := observe(spA, func() (string, error) { return A.Render(mainName, BuildCtx(sc.Prog.Ctx, 0)) })
	faultedBefore := faulted
	b := observe(spB, func() (string, error) { return B.Render(mainName, BuildCtx(sc.Prog.Ctx, 0)) })
	o.Probes["renders_compared"]++
	o.Probes["class_"+a.Class]++
	if a.Key() != b.Key() {
		if faulted && !faultedBefore || (faulted && b.Class == "error") {
			// a read fault fired during B's load: the operation may fail
			o.Probes["render_failed_by_fault"]++
			return o
		}
		return fail(fmt.Sprintf("compiled template renders differently from its source: source=%s compiled=%s", a.Class, b.Class),
			fmt.Sprintf("via %s, main %q = %q\n source engine:   %s\n compiled engine: %s", sc.Via, mainName, srcs[mainName], a, b))
	}
	// "for every context": the same pair of engines over other variants of the context
	if !faulted {
		for _, k := range []int{1, 2} {
			spA, spB := newSpies(), newSpies()
			hubA.per[0], hubB.per[0] = spA, spB
			av := observe(spA, func() (string, error) { return A.Render(mainName, BuildCtx(sc.Prog.Ctx.Variant(k), 0)) })
			bv := observe(spB, func() (string, error) { return B.Render(mainName, BuildCtx(sc.Prog.Ctx.Variant(k), 0)) })
			o.Probes["renders_compared"]++
			if av.Key() != bv.Key() && !faulted {
				return fail(fmt.Sprintf("compiled template renders differently from its source: source=%s compiled=%s", av.Class, bv.Class),
					fmt.Sprintf("via %s, main %q = %q, context variant %d\n source engine:   %s\n compiled engine: %s", sc.Via, mainName, srcs[mainName], k, av, bv))
			}
		}
	}
	// metadata of what B holds
	if tb, ok := twig.VerifCached(B)[mainName]; ok && !faulted {
		_, srcB, lmB, _ := twig.VerifTemplateMeta(tb)
		_, srcA, lmA, _ := twig.VerifTemplateMeta(twig.VerifCached(A)[mainName])
		if srcB != srcA {
			return fail("engine loaded from compiled form holds a different source", mainName)
		}
		if sc.Via == "bytes" && lmB != lmA && lmA != 0 {
			return fail("engine loaded from compiled bytes holds a different LastModified", fmt.Sprintf("%d vs %d", lmB, lmA))
		}
	}
	// second generation: the main template is edited and recompiled (often within the same simulated
	// second) and carried to an engine with and one without history; both must render the NEW source
	if a.Class == "ok" && !faulted {
		src2 := srcs[mainName] + "<!-- v2 -->{{ 40 + 2 }}"
		if err := A.RegisterString(mainName, src2); err == nil {
			c2, err := A.CompileTemplate(mainName)
			if err != nil {
				return fail("compile of a re-registered template failed", err.Error())
			}
			d2, err := twig.SerializeCompiledTemplate(c2)
			if err != nil {
				return fail("serialise failed", err.Error())
			}
			hubB2 := &spyHub{per: []*Spies{newSpies()}}
			B2 := twig.New()
			installSpies(B2, hubB2)
			for _, s := range sers {
				if s.name != "\x00raw" && s.name != mainName {
					B2.LoadFromCompiledData(append([]byte(nil), s.copy...)) // (s.data may have been reused by now)
				}
			}
			for _, eng := range []*twig.Engine{B, B2} {
				if err := eng.LoadFromCompiledData(d2); err != nil {
					return fail("LoadFromCompiledData failed on serialised bytes", fmt.Sprintf("second generation of %s: %v", mainName, err))
				}
			}
			spA2, spB1, spB2 := newSpies(), newSpies(), newSpies()
			hubA.per[0], hubB.per[0], hubB2.per[0] = spA2, spB1, spB2
			a2 := observe(spA2, func() (string, error) { return A.Render(mainName, BuildCtx(sc.Prog.Ctx, 0)) })
			for _, pair := range []struct {
				which string
				e     *twig.Engine
				sp    *Spies
			}{{"engine that had loaded the first version", B, spB1}, {"fresh engine", B2, spB2}} {
				which := pair.which
				b2 := observe(pair.sp, func() (string, error) { return pair.e.Render(mainName, BuildCtx(sc.Prog.Ctx, 0)) })
				o.Probes["renders_compared"]++
				if a2.Key() != b2.Key() && faulted && b2.Class == "error" {
					// a disk fault fired during this render (e.g. the n-th stat): the operation may fail
					o.Probes["render_failed_by_fault"]++
					continue
				}
				if a2.Key() != b2.Key() {
					return fail(fmt.Sprintf("recompiled template renders differently from its new source: source=%s compiled=%s", a2.Class, b2.Class),
						fmt.Sprintf("%s, main %q edited to %q\n source engine:   %s\n compiled engine: %s", which, mainName, tail(src2, 200), a2, b2))
				}
			}
			o.Probes["second_generation"]++
			if sc.Via != "bytes" && !faulted {
				// … and through the disk: saving the edited template again must replace the stored form
				cl2 := twig.NewCompiledLoader("cache")
				if err := cl2.SaveCompiled(A, mainName); err != nil {
					if !faulted {
						return fail("SaveCompiled failed without a disk fault", fmt.Sprintf("second generation of %s: %v", mainName, err))
					}
				} else if !faulted {
					fb, ok := w.FSRead("cache/" + mainName + ".twig.compiled")
					if !ok {
						return fail("SaveCompiled reported success but wrote no file", mainName)
					}
					back, err := twig.DeserializeCompiledTemplate(fb)
					if err != nil {
						return fail("file written by the compiled loader does not deserialise", fmt.Sprintf("second generation of %s: %v", mainName, err))
					}
					if back.Source != src2 {
						return fail("SaveCompiled reported success but the stored form still holds an earlier source", fmt.Sprintf("%s: stored %q, current %q", mainName, tail(back.Source, 80), tail(src2, 80)))
					}
					o.Probes["second_generation_on_disk"]++
				}
			}
		}
	}
	o.Sample = map[string]interface{}{"via": sc.Via, "templates": names, "raws": len(sc.Raws), "clock_start_s": sc.ClockStart, "faults": sc.Faults, "main": tail(srcs[mainName], 300), "result": a.Class}
	return o
}

func (propC16) Shrink(scI interface{}) []interface{} {
	sc := scI.(*c16Sc)
	var out []interface{}
	clone := func() *c16Sc {
		b, _ := json.Marshal(sc)
		var c c16Sc
		json.Unmarshal(b, &c)
		return &c
	}
	for i := range sc.Raws {
		c := clone()
		c.Raws = append(c.Raws[:i], c.Raws[i+1:]...)
		out = append(out, c)
	}
	for i := range sc.Faults {
		c := clone()
		c.Faults = append(c.Faults[:i], c.Faults[i+1:]...)
		out = append(out, c)
	}
	for ti, t := range sc.Prog.Templates {
		for si := range t.Segs {
			c := clone()
			s := c.Prog.Templates[ti].Segs
			c.Prog.Templates[ti].Segs = append(s[:si], s[si+1:]...)
			out = append(out, c)
		}
	}
	for ti, t := range sc.Prog.Templates {
		if t.Name != sc.Prog.Main {
			c := clone()
			c.Prog.Templates = append(c.Prog.Templates[:ti], c.Prog.Templates[ti+1:]...)
			out = append(out, c)
		}
	}
	if sc.WarmB {
		c := clone()
		c.WarmB = false
		out = append(out, c)
	}
	if sc.Via != "bytes" {
		c := clone()
		c.Via = "bytes"
		c.Faults = nil
		out = append(out, c)
	}
	for ki := range sc.Prog.Ctx.M {
		c := clone()
		m := c.Prog.Ctx.M
		c.Prog.Ctx.M = append(m[:ki], m[ki+1:]...)
		out = append(out, c)
	}
	return out
}

package main

import (
	"encoding/json"
	"fmt"
	"io"
	"reflect"
	"strconv"
	"strings"

	"github.com/semihalev/twig"
	"simrt"
)

// C20 — attribute access returns the right member whatever was looked up before.

// ---- hand-written value shapes ----

type Base struct {
	ID    int
	Title string
	hid   string
}

func (b Base) Describe() string { return fmt.Sprintf("base#%d", b.ID) }
func (b *Base) Bump() int       { return b.ID + 1 }

type Mid struct {
	Base
	Level int
}

type Top struct {
	Mid
	Name  string
	Title string // shadows Base.Title
}

func (t Top) Hello() string { return "hello " + t.Name }

type PtrEmbed struct {
	*Base
	Extra string
}

type Alpha struct {
	A int
	B string
	C bool
}

type Beta struct { // same names as Alpha at different indices and types
	C string
	A float64
	X int
	B []int
}

type Gamma struct {
	X, Y int
	B    map[string]interface{}
	A    *Alpha
}

func (g Gamma) Sum() int            { return g.X + g.Y }
func (g *Gamma) Scale(k int) int    { return g.X * k } // has an argument: not callable as attribute
func (g Gamma) Nothing()            {}
func (g Gamma) Pair() (int, string) { return g.X, "p" }

// shapes for promoted-field resolution: shallowest wins, equal depth is ambiguous (no such member)
type Stamp struct {
	ID string
	At int
}
type Tracking struct {
	Stamp
	Source string
}
type Record struct {
	ID   string
	Name string
}
type Author struct {
	Name string
	Mail string
}
type Doc struct {
	Tracking
	Record
	Author
	Title string
	Lang  string
	Pages int
	Draft bool
}

type OnlyMethods struct{ v int }

func (o OnlyMethods) Value() int   { return o.v }
func (o *OnlyMethods) Double() int { return 2 * o.v }

// two distinct types that print alike ("main.Local"): declared in different function scopes
func localA() interface{} {
	type Local struct {
		A int
		B string
	}
	return Local{A: 1, B: "la"}
}

func localB() interface{} {
	type Local struct {
		B string
		X bool
		A int
	}
	return Local{B: "lb", X: true, A: 2}
}

// EmbV / Shadow: a method of the outer type and a field promoted from an embedded struct share a name.
type EmbV struct {
	Value int
	Sum   string
	Scale float64
}

type Shadow struct {
	EmbV
	K int
}

func (s Shadow) Value() string   { return fmt.Sprintf("method-value-%d", s.K) }
func (s *Shadow) Sum() string    { return "ptr-method-sum" }
func (s Shadow) Nothing() string { return "" }

// PtrOnly has methods on the pointer only (its value method set is empty).
type PtrOnly struct {
	N int
	X string
}

func (p *PtrOnly) Double() int  { return 2 * p.N }
func (p *PtrOnly) Pair() string { return fmt.Sprintf("(%d,%s)", p.N, p.X) }

// further shapes: a named map type, a map with a named string key type, an embedded interface, methods with
// several results / variadic parameters / a parameter
type Dict map[string]interface{}
type Key string
type Desc interface{ Describe() string }
type WithIface struct {
	Desc
	K int
}
type Fetcher struct{ N int }

func (f Fetcher) Fetch() (string, error)       { return fmt.Sprintf("fetched-%d", f.N), nil }
func (f Fetcher) Join(parts ...string) string  { return fmt.Sprintf("joined-%d-%d", f.N, len(parts)) }
func (f Fetcher) Args(a int) int               { return a + f.N }
func (f *Fetcher) Fetch2() (int, string, bool) { return f.N, "second", true }

// exported fields promoted through an embedded struct of an UNEXPORTED type (by value and by pointer)
type inner struct {
	ID      int
	Created string
}
type inner2 struct{ By string }
type Outer struct {
	inner
	*inner2
	Extra string
}

// Wrap's only field is an embedded exported struct; it overrides one of that struct's methods with the same
// method-set size.
type Wrap struct{ Base }

func (w Wrap) Describe() string { return fmt.Sprintf("wrap#%d", w.ID) }

// Handle is a small hashable VALUE whose method reads through a pointer: the answer changes although the
// value (as a map key) does not.
type Handle struct {
	P    *int
	Name string
}

func (h Handle) Cur() int { return *h.P }

func handObjects() []interface{} {
	b := Base{ID: 7, Title: "bt", hid: "h"}
	top := Top{Mid: Mid{Base: b, Level: 3}, Name: "top", Title: "tt"}
	return []interface{}{
		b, &b,
		Mid{Base: b, Level: 2}, &Mid{Base: b, Level: 5},
		top, &top,
		PtrEmbed{Base: &b, Extra: "ex"}, &PtrEmbed{Base: &b, Extra: "ey"},
		Alpha{1, "b", true}, &Alpha{2, "bb", false},
		Beta{"c", 1.5, 9, []int{1, 2}}, &Beta{"cc", 2.5, 8, nil},
		Gamma{X: 2, Y: 3, B: map[string]interface{}{"k": "v"}, A: &Alpha{5, "five", true}}, &Gamma{X: 4, Y: 5},
		OnlyMethods{21}, &OnlyMethods{4},
		map[string]interface{}{"A": 1, "name": "m", "Title": "mt", "nil": nil},
		map[string]interface{}{},
		map[string]string{"A": "sa", "name": "sn", "X": ""},
		map[string]int{"A": 11, "B": 22, "ID": 0},
		map[string][]int{"A": {1, 2}},
		map[string]*Alpha{"A": {A: 7, B: "seven"}},
		PtrEmbed{Base: nil, Extra: "nil-embedded"}, &PtrEmbed{Base: nil, Extra: "nil-embedded-ptr"},
		localA(), localB(),
		// second values of types that already occur above: an answer must come from THIS object
		OnlyMethods{5}, &OnlyMethods{6}, Gamma{X: 7, Y: 1}, &Gamma{X: 9, Y: 9}, Base{ID: 70, Title: "other"}, &Base{ID: 71}, Top{Name: "top2"}, Alpha{9, "nine", false},
		Doc{Tracking: Tracking{Stamp: Stamp{ID: "trk", At: 5}, Source: "src"}, Record: Record{ID: "rec", Name: "rname"}, Author: Author{Name: "aname", Mail: "m@x"}, Title: "T", Lang: "en", Pages: 3},
		&Doc{Tracking: Tracking{Stamp: Stamp{ID: "trk2", At: 6}}, Record: Record{ID: "rec2"}, Lang: "de", Draft: true},
		PtrOnly{N: 3, X: "v"}, &PtrOnly{N: 4, X: "p"},
		Dict{"A": 1, "name": "d", "K": nil}, Dict{},
		map[Key]int{"A": 5, "ID": 6}, map[Key]string{"name": "kn"},
		WithIface{Desc: Base{ID: 3, Title: "wi"}, K: 1}, &WithIface{Desc: &Base{ID: 4}, K: 2},
		Fetcher{N: 2}, &Fetcher{N: 3},
		WithIface{K: 9}, &WithIface{K: 10},
		Wrap{Base{ID: 11, Title: "wt"}}, &Wrap{Base{ID: 12}},
		Handle{P: new(int), Name: "h1"}, &Handle{P: new(int), Name: "h2"},
		Outer{inner: inner{ID: 5, Created: "then"}, inner2: &inner2{By: "me"}, Extra: "ox"}, &Outer{inner: inner{ID: 6}, Extra: "oy"},
		map[string]interface{}{"1.1": "a", "1.10": "b", "1234": "c", "01234": "d", "1e3": "e", "1000": "f", "A": "g"}, map[string]string{"1.10": "sb", "01": "s1", "1": "s2"},
		Shadow{EmbV: EmbV{Value: 3, Sum: "field-sum", Scale: 1.5}, K: 1}, &Shadow{EmbV: EmbV{Value: 4, Sum: "field-sum-2"}, K: 2},
		// database rows: fields whose TYPES have methods of their own (sql.Null*: Value, Scan; time.Time), optional times
		*(&Val{T: "row", S: "e@x", I: 3}).Build(0).(*Row), (&Val{T: "row", I: 4}).Build(0),
		wideObject(false), wideObject(true),
	}
}

// wideObject is a struct with 300 fields (a denormalised reporting row): W<i> holds i.
func wideObject(ptr bool) interface{} {
	fields := make([]reflect.StructField, 300)
	for i := range fields {
		fields[i] = reflect.StructField{Name: "W" + strconv.Itoa(i), Type: reflect.TypeOf(0)}
	}
	p := reflect.New(reflect.StructOf(fields))
	for i := range fields {
		p.Elem().Field(i).SetInt(int64(i))
	}
	if ptr {
		return p.Interface()
	}
	return p.Elem().Interface()
}

var c20Names = []string{"A", "B", "C", "X", "Y", "ID", "Title", "Level", "Name", "Extra", "hid", "v",
	"Describe", "Bump", "Hello", "Sum", "Scale", "Nothing", "Pair", "Value", "Double", "Base", "Mid", "name", "nil", "zzz", "F0", "F1", "F2", "F3",
	"At", "Source", "Mail", "Lang", "Pages", "Draft", "Stamp", "Tracking", "Record", "Author",
	"K", "N", "Desc", "Fetch", "Fetch2", "Join", "Args", "Created", "By",
	"1.1", "1.10", "1234", "01234", "1e3", "1000", "01", "1", "Cur", "Cur", "P",
	"Email", "Seats", "DeletedAt", "CreatedAt", "UpdatedAt", "W3", "W4", "W255", "W256", "W260", "W299"}

var genFieldNames = []string{"A", "B", "C", "X", "F0", "F1", "F2", "F3"}
var genFieldTypes = []reflect.Type{reflect.TypeOf(0), reflect.TypeOf(""), reflect.TypeOf(true), reflect.TypeOf(1.5), reflect.TypeOf([]int(nil))}

// genObject builds a value of a reflect.StructOf type whose layout is a pure function of id.
func genObject(id int) interface{} {
	r := newR(uint64(id)*7919 + 13)
	n := r.Range(1, 5)
	perm := []int{0, 1, 2, 3, 4, 5, 6, 7}
	for i := len(perm) - 1; i > 0; i-- {
		j := r.N(i + 1)
		perm[i], perm[j] = perm[j], perm[i]
	}
	fields := make([]reflect.StructField, n)
	for i := 0; i < n; i++ {
		fields[i] = reflect.StructField{Name: genFieldNames[perm[i]], Type: genFieldTypes[r.N(len(genFieldTypes))]}
	}
	// make the type unique per id with a tag, so the cache sees as many distinct types as ids
	fields[0].Tag = reflect.StructTag(fmt.Sprintf(`id:"%d"`, id))
	t := reflect.StructOf(fields)
	v := reflect.New(t).Elem()
	for i := 0; i < n; i++ {
		f := v.Field(i)
		switch f.Kind() {
		case reflect.Int:
			f.SetInt(int64(id*10 + i))
		case reflect.String:
			f.SetString(fmt.Sprintf("s%d_%d", id, i))
		case reflect.Bool:
			f.SetBool(i%2 == 0)
		case reflect.Float64:
			f.SetFloat(float64(id) + 0.5)
		case reflect.Slice:
			f.Set(reflect.ValueOf([]int{id, i}))
		}
	}
	if id%2 == 1 {
		p := reflect.New(t)
		p.Elem().Set(v)
		return p.Interface()
	}
	return v.Interface()
}

// refAttr is the reference: direct reflection following Go's selector rules, written independently
// of the engine's lookup. ambiguous reports cases the property text leaves open (a pointer-receiver
// method looked up on a non-pointer value), for which either answer is admissible.
func refAttr(obj interface{}, name string) (val interface{}, ambiguous bool) {
	if obj == nil {
		return nil, false
	}
	if m, ok := obj.(map[string]interface{}); ok {
		return m[name], false
	}
	v := reflect.ValueOf(obj)
	if v.Kind() == reflect.Map && v.Type().Key().Kind() == reflect.String {
		if e := v.MapIndex(reflect.ValueOf(name).Convert(v.Type().Key())); e.IsValid() {
			return e.Interface(), false
		}
		return nil, false
	}
	isPtr := v.Kind() == reflect.Ptr
	if isPtr {
		if v.IsNil() {
			return nil, false
		}
		v = v.Elem()
	}
	if v.Kind() != reflect.Struct {
		return nil, false
	}
	t := v.Type()
	if f, ok := t.FieldByName(name); ok && f.PkgPath == "" {
		// walk the promoted path by hand; a nil embedded pointer on the way means "no value"
		cur := v
		for _, i := range f.Index {
			if cur.Kind() == reflect.Ptr {
				if cur.IsNil() {
					return nil, false
				}
				cur = cur.Elem()
			}
			cur = cur.Field(i)
		}
		if cur.CanInterface() {
			return cur.Interface(), false
		}
		return nil, false
	}
	call := func(m reflect.Value) interface{} {
		if m.Type().NumIn() != 0 {
			return nil
		}
		out := m.Call(nil)
		if len(out) == 0 {
			return nil
		}
		return out[0].Interface()
	}
	if m, ok := t.MethodByName(name); ok {
		if m.Type.NumIn() != 1 {
			return nil, false
		}
		return call(v.Method(m.Index)), false
	}
	pt := reflect.PointerTo(t)
	if m, ok := pt.MethodByName(name); ok {
		if m.Type.NumIn() != 1 {
			return nil, false
		}
		if isPtr {
			return call(reflect.ValueOf(obj).Method(m.Index)), false
		}
		p := reflect.New(t)
		p.Elem().Set(v)
		return call(p.Method(m.Index)), true
	}
	return nil, false
}

type c20Op struct {
	Obj    int    `json:"obj"` // < 100: hand-written object; otherwise generated type id = Obj-100
	Name   string `json:"name"`
	Render bool   `json:"render,omitempty"`
	Item   bool   `json:"item,omitempty"`      // x['name'] instead of x.name (maps only)
	Sand   bool   `json:"sandboxed,omitempty"` // the rendered lookup happens inside a sandboxed include
	Def    bool   `json:"def,omitempty"`       // the render asks `x.name is defined` (answer compared with the cold-cache answer); touches the same cache
	Pair   bool   `json:"pair,omitempty"`      // one render looks the name up on a struct pointer AND on a pointer to its first (embedded) field: same address, different types
}

type c20Sc struct {
	WorldSeed  uint64             `json:"world_seed"`
	MaxSize    int                `json:"cache_max"`
	ClockStep  int64              `json:"clock_step"` // 0 = frozen clock: all lastAccess equal
	JumpBack   int                `json:"jump_back_at"`
	Tasks      [][]c20Op          `json:"tasks"`
	PreemptDen int                `json:"preempt_den"`
	Share      bool               `json:"share_templates,omitempty"` // tasks render the SAME parsed templates (one syntax tree per distinct lookup text)
	Explicit   bool               `json:"explicit,omitempty"`
	Schedule   []simrt.SchedEntry `json:"schedule,omitempty"`
}

type propC20 struct{}

func init() { register(propC20{}) }

func (propC20) ID() string    { return "C20" }
func (propC20) Race() bool    { return true }
func (propC20) Level() string { return "exploration" }
func (propC20) Rule() string {
	return "one run = 1-3 caller tasks under the seeded scheduler, each performing a history of attribute lookups (direct and through {{ x.name }}) over 18 hand-written value shapes (value/pointer methods, one- and two-level embedding, promoted and shadowed fields, unexported fields, maps) and an unbounded family of reflect.StructOf types in which the same field name sits at different indices and types; histories contain flood phases with more distinct (type, name) pairs than the cache bound (knob 2/7/64/1000) and re-lookups after eviction; clock faults freeze/jump-back. Every lookup is compared with an independent direct-reflection reference; the Go race detector watches the shared cache. distinct = distinct event-log hash; non-trivial = at least one eviction and one cache hit happened in the run"
}
func (propC20) Assumptions() []string {
	return []string{
		"reference = Go selector rules via reflect.FieldByName/FieldByIndex/MethodByName; pointer-receiver method on a non-pointer value is treated as a don't-care (either empty or the result), but must still be answered identically every time",
		"the attribute-cache bound is a tuning constant and may be varied (2, 7, 64, 1000)",
		"scheduler hand-off is invisible to the race detector (RaceDisable + norace), so reported races are unordered accesses of twig itself",
	}
}
func (propC20) MainFaults() []string { return []string{"evictions", "cache_hits"} }

func (propC20) Decode(raw []byte) (interface{}, error) {
	var sc c20Sc
	err := json.Unmarshal(raw, &sc)
	return &sc, err
}

func (propC20) Gen(seed uint64, ex map[string]bool) interface{} {
	r := newR(seed)
	sc := &c20Sc{WorldSeed: simrt.Mix(seed, 3)}
	sc.MaxSize = pick(r, []int{2, 7, 7, 64, 64, 1000})
	sc.ClockStep = pick(r, []int64{0, 0, 1, 1e6, 1e9})
	sc.JumpBack = r.N(60)
	nt := pick(r, []int{1, 1, 2, 2, 3})
	sc.PreemptDen = pick(r, []int{0, 4, 16, 64})
	sc.Share = nt > 1 && r.P(60)
	nh := len(handObjects())
	pickObj := func() int {
		if r.P(60) {
			o := r.N(nh)
			if ex["promoted-field"] {
				// objects with embedded structs: 2..7
				for o >= 2 && o <= 7 {
					o = r.N(nh)
				}
			}
			return o
		}
		return 100 + r.N(40)
	}
	for t := 0; t < nt; t++ {
		var ops []c20Op
		var seen []c20Op
		phases := r.Range(2, 5)
		if ex["tier:thorough"] {
			phases = r.Range(3, 12)
		}
		for ph := 0; ph < phases; ph++ {
			switch r.N(6) {
			case 0: // ordinary lookups
				n := r.Range(3, 15)
				for i := 0; i < n; i++ {
					op := c20Op{Obj: pickObj(), Name: pick(r, c20Names), Render: r.P(15), Item: r.P(30)}
					if op.Render && r.P(35) {
						op.Sand = true
					}
					if r.P(12) {
						op.Render, op.Def, op.Item = true, true, false
					}
					if r.P(8) {
						op = c20Op{Obj: 5, Name: pick(r, []string{"Title", "ID", "Level", "Name", "Describe", "Hello", "zzz"}), Render: true, Pair: true}
					}
					ops = append(ops, op)
					seen = append(seen, op)
				}
			case 1: // flood with distinct generated types
				n := sc.MaxSize + r.N(sc.MaxSize/2+3)
				if n > 300 {
					n = 300
				}
				start := 200 + r.N(5000)
				for i := 0; i < n; i++ {
					ops = append(ops, c20Op{Obj: 100 + start + i, Name: pick(r, genFieldNames)})
				}
			case 3: // many different names on one object, then on a sibling value of the same type
				o1 := pickObj()
				n := r.Range(5, 9)
				for i := 0; i < n; i++ {
					op := c20Op{Obj: o1, Name: pick(r, c20Names)}
					ops = append(ops, op)
					seen = append(seen, op)
				}
				if o1 < 100 {
					sib := o1 ^ 1 // hand-written objects come in value/pointer or nil/non-nil pairs
					for i := 0; i < 4; i++ {
						ops = append(ops, c20Op{Obj: sib, Name: pick(r, c20Names)})
					}
				}
			case 4: // the don't-care pair before and after a flood: whichever answer it gets, it must get it again
				if pairs := c20AmbPairs(); len(pairs) > 0 && sc.MaxSize <= 64 {
					pr := pairs[r.N(len(pairs))]
					again := c20Op{Obj: pr[0], Name: c20Names[pr[1]], Render: r.P(30)}
					ops = append(ops, again)
					start := 200 + r.N(5000)
					for i := 0; i < sc.MaxSize*2+3; i++ {
						ops = append(ops, c20Op{Obj: 100 + start + i, Name: pick(r, genFieldNames)})
					}
					ops = append(ops, again, again)
					seen = append(seen, again)
				}
			default: // re-lookup earlier pairs
				for i := 0; i < len(seen) && i < 12; i++ {
					ops = append(ops, seen[r.N(len(seen))])
				}
			}
		}
		sc.Tasks = append(sc.Tasks, ops)
	}
	return sc
}

// jsonOf prints a looked-up value the way the rendered form does (json_encode), so that direct and rendered
// lookups of the don't-care can be compared with each other.
func jsonOf(v interface{}) string {
	b, err := json.Marshal(v)
	if err != nil {
		return fmt.Sprintf("%v", v)
	}
	return string(b)
}

// c20Norm: a name that starts with a digit cannot be written after a dot. On maps it is looked up by subscript,
// elsewhere through the engine's lookup function directly (never through a rendered template).
func c20Norm(op c20Op, obj interface{}) c20Op {
	if op.Name != "" && op.Name[0] >= '0' && op.Name[0] <= '9' {
		op.Def, op.Pair, op.Sand = false, false, false
		if obj != nil && reflect.TypeOf(obj).Kind() == reflect.Map {
			op.Item = true
		} else {
			op.Render, op.Item = false, false
		}
	}
	return op
}

var c20AmbCache [][2]int

// c20AmbPairs lists (hand object index, name index) pairs that are the stated don't-care: a method declared on
// the pointer, looked up on a struct VALUE.
func c20AmbPairs() [][2]int {
	if c20AmbCache == nil {
		c20AmbCache = [][2]int{}
		for oi, o := range handObjects() {
			for ni, n := range c20Names {
				func() {
					defer func() { recover() }() // a method reached through a nil embedded pointer
					if _, amb := refAttr(o, n); amb {
						c20AmbCache = append(c20AmbCache, [2]int{oi, ni})
					}
				}()
			}
		}
	}
	return c20AmbCache
}

func c20Object(hand []interface{}, id int) interface{} {
	if id < 100 {
		return hand[id%len(hand)]
	}
	return genObject(id - 100)
}

func (propC20) Run(scI interface{}) *Outcome {
	sc := scI.(*c20Sc)
	o := &Outcome{Probes: map[string]int64{}}
	w := simrt.Begin(simrt.Config{Seed: sc.WorldSeed, PoolPolicy: simrt.PoolLIFO, MapOrder: simrt.OrderSorted,
		ClockStart: 1_700_000_000e9, ClockStep: sc.ClockStep, PreemptDen: sc.PreemptDen, Explicit: sc.Explicit, Schedule: sc.Schedule})
	defer simrt.End()
	twig.SetDebugWriter(io.Discard)
	saved := twig.VerifSwapGlobals(nil)
	defer twig.VerifSwapGlobals(saved)
	twig.VerifSetAttrCacheMax(sc.MaxSize)
	nt := len(sc.Tasks)
	viols := make([]*Violation, nt)
	type probe struct{ evict, hits, hitAfterEvict, renders, lookups, ambiguous int64 }
	probes := make([]probe, nt)
	engines := make([]*twig.Engine, nt)
	hands := make([][]interface{}, nt)
	for t := 0; t < nt; t++ {
		engines[t] = twig.New()
		installSandbox(engines[t])
		hands[t] = handObjects()
	}
	// templates are parsed before the tasks start: concurrent parsing is C02's subject, not C20's
	tpls := make([][]*twig.Template, nt)
	coldDef := map[[2]int]string{}
	skipDef := map[[2]int]bool{}
	shared := map[string]*twig.Template{}
	for t := 0; t < nt; t++ {
		tpls[t] = make([]*twig.Template, len(sc.Tasks[t]))
		for i, op := range sc.Tasks[t] {
			op = c20Norm(op, c20Object(hands[t], op.Obj))
			if op.Render {
				acc := "x." + op.Name
				o := c20Object(hands[t], op.Obj)
				if op.Item && o != nil && reflect.TypeOf(o).Kind() == reflect.Map {
					acc = "x['" + op.Name + "']"
				}
				body := "{{ " + acc + "|json_encode }}\x00{{ v|json_encode }}"
				if op.Def {
					body = "{{ x." + op.Name + " is defined ? 'D' : 'U' }}"
				}
				if op.Pair {
					body = "{{ x." + op.Name + "|json_encode }}{{ y." + op.Name + "|json_encode }}{{ z." + op.Name + "|json_encode }}\x00{{ v|json_encode }}{{ vy|json_encode }}{{ vz|json_encode }}"
				}
				if op.Sand {
					// the same lookup performed inside a sandboxed include (attribute access is not restricted by the policy)
					inner := fmt.Sprintf("inner_%d_%d", t, i)
					engines[t].RegisterString(inner, body)
					body = "{% include '" + inner + "' sandboxed %}"
				}
				if sc.Share && !op.Sand {
					if shared[body] == nil {
						shared[body], _ = engines[0].ParseTemplate(body)
					}
					tpls[t][i] = shared[body]
				} else {
					tpls[t][i], _ = engines[t].ParseTemplate(body)
				}
				if op.Def && tpls[t][i] != nil {
					// the history-free answer: the same question asked with an empty attribute cache
					hot := twig.VerifSwapGlobals(nil)
					func() {
						defer func() {
							if recover() != nil {
								// the engine answers the question by calling the method; a method of the harness's own
								// objects that cannot stand a nil embedded receiver is not the cache's business
								skipDef[[2]int{t, i}] = true
							}
						}()
						coldDef[[2]int{t, i}], _ = tpls[t][i].Render(map[string]interface{}{"x": o})
					}()
					twig.VerifSwapGlobals(hot)
					twig.VerifSetAttrCacheMax(sc.MaxSize)
				}
			}
		}
	}
	for t := 0; t < nt; t++ {
		t := t
		w.Go(func() {
			evicted := false
			ambFirst := map[string]string{} // the don't-care (pointer method on a value): whichever answer, always the same one
			hand := hands[t]
			pr := &probes[t]
			for i, op := range sc.Tasks[t] {
				if viols[t] != nil {
					return
				}
				if nt == 1 && i == sc.JumpBack {
					w.AdvanceClock(-3600e9)
				}
				if op.Def && skipDef[[2]int{t, i}] {
					continue
				}
				obj := c20Object(hand, op.Obj)
				op = c20Norm(op, obj)
				switch h := obj.(type) { // what such a handle points at moves on between lookups
				case Handle:
					*h.P = i*7 + t
				case *Handle:
					*h.P = i*5 + t
				}
				isMap := obj != nil && reflect.TypeOf(obj).Kind() == reflect.Map
				if op.Item && !isMap {
					op.Item = false // the subscript form is only specified for maps
				}
				want, amb := refAttr(obj, op.Name)
				var sizeBefore int
				var wasCached bool
				if nt == 1 {
					sizeBefore, _, _ = twig.VerifAttrCache()
					wasCached = twig.VerifAttrCached(obj, op.Name)
				}
				var got interface{}
				var gerr error
				var panicked interface{}
				func() {
					defer func() {
						if r := recover(); r != nil {
							if simrtAbort(r) {
								panic(r)
							}
							panicked = r
						}
					}()
					if op.Render {
						// x.NAME and the reference value go through the same printing path
						tpl := tpls[t][i]
						if tpl == nil {
							gerr = fmt.Errorf("template did not parse")
							return
						}
						rctx := map[string]interface{}{"x": obj, "v": want}
						if op.Pair {
							if top, ok := obj.(*Top); ok {
								// &top, &top.Mid and &top.Mid.Base are the same address with three different types
								rctx["y"], rctx["z"] = &top.Mid, &top.Mid.Base
								rctx["vy"], _ = refAttr(&top.Mid, op.Name)
								rctx["vz"], _ = refAttr(&top.Mid.Base, op.Name)
							}
						}
						out, err := tpl.Render(rctx)
						gerr = err
						got = out
						pr.renders++
					} else if op.Item {
						got, gerr = twig.VerifGetItem(obj, op.Name)
					} else {
						got, gerr = twig.VerifGetAttribute(obj, op.Name)
					}
				}()
				pr.lookups++
				if amb {
					pr.ambiguous++
				}
				if nt == 1 {
					sizeAfter, _, _ := twig.VerifAttrCache()
					if sizeAfter < sizeBefore || (sizeAfter == sizeBefore && !wasCached && sizeBefore >= sc.MaxSize) {
						pr.evict++
						evicted = true
					}
					if wasCached {
						pr.hits++
						if evicted {
							pr.hitAfterEvict++
						}
					}
				}
				if panicked != nil {
					viols[t] = &Violation{Oracle: "reference", Sig: "attribute lookup panicked",
						Detail: fmt.Sprintf("task %d op #%d: %T . %s panicked: %v", t, i, obj, op.Name, panicked)}
					return
				}
				if op.Render && op.Def {
					gs, _ := got.(string)
					if gerr != nil || gs != coldDef[[2]int{t, i}] {
						viols[t] = &Violation{Oracle: "cold-cache", Sig: "`is defined` on an attribute depends on lookup history",
							Detail: fmt.Sprintf("task %d op #%d: {{ x.%s is defined }} with x of type %T\n this history: %q err=%v\n empty cache:  %q", t, i, op.Name, obj, gs, gerr, coldDef[[2]int{t, i}])}
						return
					}
					continue
				}
				if amb && gerr == nil && !op.Pair && !op.Def {
					ans := ""
					if op.Render {
						gs, _ := got.(string)
						ans = "r:" + strings.SplitN(gs, "\x00", 2)[0]
					} else {
						ans = "r:" + jsonOf(got)
					}
					key := fmt.Sprintf("%d.%s", op.Obj, op.Name) // per object: the method's result may depend on the value
					if first, ok := ambFirst[key]; ok && first != ans {
						viols[t] = &Violation{Oracle: "self-consistency", Sig: "a pointer-receiver method on a value is answered differently at different points of the history",
							Detail: fmt.Sprintf("task %d op #%d: (%T).%s\n earlier: %s\n now:     %s", t, i, obj, op.Name, first, ans)}
						return
					} else if !ok {
						ambFirst[key] = ans
					}
				}
				if op.Render {
					gs, _ := got.(string)
					halves := strings.SplitN(gs, "\x00", 2)
					if gerr != nil || len(halves) != 2 || halves[0] != halves[1] {
						if amb && gerr == nil && len(halves) == 2 && (halves[0] == "" || halves[0] == "null") {
							continue
						}
						viols[t] = &Violation{Oracle: "reference", Sig: "rendered attribute differs from direct reflection",
							Detail: fmt.Sprintf("task %d op #%d: {{ x.%s|json_encode }} vs {{ v|json_encode }} with x of type %T and v the reference value\n output: %q err=%v", t, i, op.Name, obj, gs, gerr)}
						return
					}
					continue
				}
				gs, ws := snapshot(got), snapshot(want)
				if gerr != nil || gs != ws {
					if amb && gerr == nil && got == nil {
						continue
					}
					kind := "wrong member"
					if isMap {
						kind = "map key"
						if op.Item {
							kind = "map key via subscript"
						}
					}
					if f, ok := reflectFieldDepth(obj, op.Name); ok && f > 1 {
						kind = "promoted field of an embedded struct"
					}
					viols[t] = &Violation{Oracle: "reference", Sig: "attribute differs from direct reflection: " + kind,
						Detail: fmt.Sprintf("task %d op #%d: (%T).%s (cache bound %d)\n engine:    %s err=%v\n reference: %s", t, i, obj, op.Name, sc.MaxSize, tail(gs, 300), gerr, tail(ws, 300))}
					return
				}
			}
		})
	}
	ab := w.RunTasks()
	o.FP = w.Fingerprint()
	o.Inter = 0
	if nt > 1 {
		o.Inter = w.SwitchHash()
	}
	o.Stats = w.Stat
	o.SimNS = w.NowNS() - 1_700_000_000e9
	if o.SimNS < 0 {
		o.SimNS = 0
	}
	var tot probe
	for _, p := range probes {
		tot.evict += p.evict
		tot.hits += p.hits
		tot.hitAfterEvict += p.hitAfterEvict
		tot.renders += p.renders
		tot.lookups += p.lookups
		tot.ambiguous += p.ambiguous
	}
	o.Probes["evictions"] = tot.evict
	o.Probes["cache_hits"] = tot.hits
	o.Probes["hit_after_eviction"] = tot.hitAfterEvict
	o.Probes["lookups"] = tot.lookups
	o.Probes["lookups_via_render"] = tot.renders
	o.Probes["ambiguous_ptr_method_on_value"] = tot.ambiguous
	o.Probes[fmt.Sprintf("tasks_%d", nt)]++
	o.Nontrivial = (tot.evict > 0 && tot.hits > 0) || (nt > 1 && w.Switches() > 1)
	if ab != "" {
		o.Poisoned = true
		o.Viol = &Violation{Oracle: "liveness", Sig: ab, Detail: "run aborted: " + ab}
		return o
	}
	for _, v := range viols {
		if v != nil {
			o.Viol = v
			break
		}
	}
	if sc.Explicit == false && nt > 1 {
		// remember the schedule so that a replay can pin it
	}
	names := []string{}
	for _, ops := range sc.Tasks {
		var s []string
		for i, op := range ops {
			if i >= 6 {
				s = append(s, "…")
				break
			}
			s = append(s, fmt.Sprintf("%d.%s", op.Obj, op.Name))
		}
		names = append(names, strings.Join(s, " "))
	}
	o.Sample = map[string]interface{}{"cache_max": sc.MaxSize, "clock_step": sc.ClockStep, "tasks": names, "evictions": tot.evict, "hits": tot.hits, "switches": w.Switches()}
	return o
}

func reflectFieldDepth(obj interface{}, name string) (int, bool) {
	t := reflect.TypeOf(obj)
	if t == nil {
		return 0, false
	}
	if t.Kind() == reflect.Ptr {
		t = t.Elem()
	}
	if t.Kind() != reflect.Struct {
		return 0, false
	}
	f, ok := t.FieldByName(name)
	return len(f.Index), ok
}

func (propC20) Shrink(scI interface{}) []interface{} {
	sc := scI.(*c20Sc)
	var out []interface{}
	clone := func() *c20Sc {
		b, _ := json.Marshal(sc)
		var c c20Sc
		json.Unmarshal(b, &c)
		return &c
	}
	if len(sc.Tasks) > 1 {
		for t := range sc.Tasks {
			c := clone()
			c.Tasks = append(c.Tasks[:t], c.Tasks[t+1:]...)
			out = append(out, c)
		}
	}
	for t, ops := range sc.Tasks {
		for size := len(ops) / 2; size >= 1; size /= 2 {
			for at := 0; at+size <= len(ops); at += size {
				c := clone()
				c.Tasks[t] = append(c.Tasks[t][:at], c.Tasks[t][at+size:]...)
				out = append(out, c)
			}
		}
	}
	if sc.PreemptDen != 0 {
		c := clone()
		c.PreemptDen = 0
		out = append(out, c)
	}
	if sc.MaxSize != 1000 {
		c := clone()
		c.MaxSize = 1000
		out = append(out, c)
	}
	return out
}

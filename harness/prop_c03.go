package main

import (
	"encoding/json"
	"fmt"
	"io"
	"os"
	"strings"

	"github.com/semihalev/twig"
	"simrt"
)

// C03 — output is a deterministic function of templates and context.

type c03Env struct {
	Dim      string `json:"dim"` // which dimension differs from the baseline
	MapOrder int    `json:"map_order"`
	Rot      int    `json:"rot"`
	Build    int    `json:"build_order"` // insertion order / fresh allocation of the context
	Clock    int64  `json:"clock_start"`
	Pool     int    `json:"pool"`
	Seed     uint64 `json:"seed"`
	Pre      int    `json:"pre_render_variant,omitempty"` // > 0: the engine has rendered the same templates with OTHER data before (context variant k)
	Addr     int    `json:"addr_reuse_pct,omitempty"`     // S8: chance that a new object takes a dead object's address (<0 never)
}

type c03Sc struct {
	Prog *Program `json:"prog"`
	Envs []c03Env `json:"envs"`
	// TwoLoaders: the templates come from a first loader; a second loader has OTHER content under the same names
	// (registration order decides, whatever the engine does internally to find them)
	Flood      int `json:"flood,omitempty"`       // so many unrelated templates are registered on the engine as well (bounded tables)
	TwoLoaders int `json:"two_loaders,omitempty"` // 1: two ArrayLoaders; 2: one FileSystemLoader with two search paths on the simulated disk
}

type propC03 struct{}

func init() { register(propC03{}) }

func (propC03) ID() string    { return "C03" }
func (propC03) Race() bool    { return false }
func (propC03) Level() string { return "exploration" }
func (propC03) Rule() string {
	return "one run = one case (template set + context) rendered on a fresh engine under a baseline environment and 7-11 other simulated environments that differ in map-iteration schedule (reverse, rotations, adjacent swaps, seeded shuffles), context insertion order with fresh allocations, clock value (up to +400 days) and pool policy; all observations must be byte-identical. Cases concentrate on map loops (typed/untyped/nested maps, hash literals incl. duplicate keys), filters applied to maps, include-with, date formats over all format letters, printing of pointers/structs. distinct = distinct event-log hash; non-trivial = at least one Keys/MapKeys call actually returned a non-sorted order"
}
func (propC03) Assumptions() []string {
	return []string{
		"simrt.Keys/MapKeys return a permutation of the keys, which the Go language allows for any map iteration",
		"constructs that are time/random dependent by definition (random(), 'now', date() of empty/zero values) are not generated",
		"a different process is approximated by a fresh engine + fresh allocations + different seeds; address dependence is exercised by rebuilding the context so every address differs",
	}
}
func (propC03) MainFaults() []string { return []string{"keys_permuted"} }

func (propC03) Decode(raw []byte) (interface{}, error) {
	var sc c03Sc
	err := json.Unmarshal(raw, &sc)
	return &sc, err
}

const dateLetters = "dDjlFmMnYyaAgGhHis"

func genC03Program(r *R, ex map[string]bool) *Program {
	g := &gen{r: r, f: Feat{MapLoops: true}}
	ctx := defaultCtx(r)
	ctx.M = append(ctx.M,
		KV{"d1", &Val{T: "time", I: 1709647629 + int64(r.N(400))*86400*3 + int64(r.N(86400))}},
		KV{"d2", &Val{T: "str", S: pick(r, []string{"2024-03-05 14:07:09", "2021-12-25", "2023-07-04T09:08:07Z", "1709647629", "03/04/2024", "03/04/2024 10:11:12", "12/11/2023", "2024-04-03T02:01:00+02:00"})}}, // only strings the engine can parse: an unparseable date falls back to the current time, which is exempt
		KV{"nm", &Val{T: "map", M: []KV{
			{"b", &Val{T: "map", M: []KV{{"y", &Val{T: "int", I: 2}}, {"x", &Val{T: "int", I: 1}}, {"z", &Val{T: "int", I: 3}}}}},
			{"a", &Val{T: "list", L: []*Val{{T: "int", I: 1}, {T: "map", M: []KV{{"q", &Val{T: "str", S: "Q"}}, {"p", &Val{T: "str", S: "P"}}}}}}},
			{"c", &Val{T: "str", S: "C"}}}}},
		KV{"si", &Val{T: "simap", M: []KV{{"one", &Val{T: "int", I: 1}}, {"two", &Val{T: "int", I: 2}}, {"three", &Val{T: "int", I: 3}}, {"four", &Val{T: "int", I: 4}}}}},
	)
	ctx.M = append(ctx.M, KV{"pm", &Val{T: "pmap", M: []KV{{"k", &Val{T: "str", S: "v"}}}}})
	ctx.M = append(ctx.M, KV{"mx", &Val{T: "anymap", M: []KV{{"#9", &Val{T: "str", S: "nine"}}, {"1a", &Val{T: "int", I: 1}}, {"#10", &Val{T: "str", S: "ten"}}, {"b", &Val{T: "bool", B: true}}, {"#-3", &Val{T: "int", I: 3}}, {"10", &Val{T: "str", S: "s10"}}}}})
	// keys that collide under plausible normalisations (case folding, trimming, numeric parsing)
	str := func(x string) *Val { return &Val{T: "str", S: x} }
	ctx.M = append(ctx.M,
		KV{"em", &Val{T: "map", M: []KV{{"", str("empty-key")}, {"de", str("D")}, {"at", str("A")}, {" ", str("space-key")}}}},
		KV{"cs", &Val{T: "map", M: []KV{{"Accept", str("A1")}, {"accept", str("a2")}, {"ACCEPT", str("A3")}, {"b", str("b4")}, {"B", str("B5")}, {" b", str("sb")}}}},
		KV{"cs2", &Val{T: "smap", M: []KV{{"Key", str("K")}, {"key", str("k")}, {"1", str("one")}, {"01", str("zero-one")}, {"1.0", str("one-dot")}}}},
	)
	ctx.M = append(ctx.M,
		KV{"fm", &Val{T: "fmap", M: []KV{{"2.5", str("two-half")}, {"-1", str("minus")}, {"10", str("ten")}, {"2.25", str("two-quarter")}}}},
		KV{"bm", &Val{T: "bmap", M: []KV{{"true", &Val{T: "int", I: 1}}, {"false", &Val{T: "int", I: 0}}}}},
		KV{"km", &Val{T: "kmap", M: []KV{{"zeta", str("Z")}, {"alpha", str("A")}, {"mid", str("M")}}}},
	)
	// values that tie under numeric comparison but print differently: whichever of them an extremum, a sort or a
	// de-duplication lets win must not depend on the order in which the map was walked
	ctx.M = append(ctx.M,
		KV{"tie", &Val{T: "map", M: []KV{{"basic", &Val{T: "int", I: 10}}, {"promo", str("10.00")}, {"std", &Val{T: "float", F: 10}}, {"plus", str("+10")}, {"low", str("2")}, {"lowf", &Val{T: "int", I: 2}}, {"lowx", str("2.0")}, {"mid", &Val{T: "float", F: 2.5}}}}},
		KV{"ties", &Val{T: "smap", M: []KV{{"x", str("7")}, {"y", str("7.0")}, {"z", str("07")}, {"w", str("1e1")}, {"v", str("10")}}}},
	)
	num := func(x int) *Val { return &Val{T: "int", I: int64(x)} }
	row := func(a, b, c int, d string) *Val {
		return &Val{T: "map", M: []KV{{"b", num(b)}, {"a", num(a)}, {"d", str(d)}, {"c", num(c)}}}
	}
	ctx.M = append(ctx.M, KV{"zam", &Val{T: "map", M: []KV{{"m", str("vm")}, {"z", str("vz")}, {"a", str("va")}}}})
	ctx.M = append(ctx.M, KV{"acct", &Val{T: "account", S: "alice", I: 3}})
	ctx.M = append(ctx.M, KV{"rows", &Val{T: "list", L: []*Val{row(1, 9, 5, "x"), row(2, 3, 5, "w"), row(0, 7, 6, "z"), row(2, 1, 4, "y")}}})
	maps := []string{"m1", "m2", "mi", "p1.Meta", "nm", "nm.b", "si", "mx", "cs", "cs2", "fm", "bm", "km", "gm", "gp.Meta", "em", "nk", "tie", "ties", "tie", "ties"}
	// what this engine can do with which map (anything else ends the render in an error or a recovered panic, the
	// same in every environment, and explores nothing): receivers of merge must be untyped, merged-in maps must have
	// string keys, json_encode needs string or integer keys, max/min need numeric values
	untyped := []string{"m1", "p1.Meta", "nm", "nm.b", "cs", "gm", "gp.Meta", "em", "nk", "tie", "zam"}
	strKeyed := append(append([]string{}, untyped...), "m2", "si", "cs2", "ties")
	jsonable := append(append([]string{}, strKeyed...), "mi")
	numeric := []string{"si", "tie", "ties", "nm.b"}
	rarely := func(pct int, unusual, usual string) string {
		if r.P(pct) {
			return unusual
		}
		return usual
	}
	_ = jsonable
	hashLit := func() string {
		n := r.Range(2, 4)
		keys := []string{"a", "b", "c", "d"}
		if r.P(25) && !ex["hash-duplicate-keys"] {
			keys = []string{"a", "A", "b", "B"} // part0 prints a,b,c,d only; case variants must not merge
		}
		var parts []string
		for i := 0; i < n; i++ {
			k := pick(r, keys)
			if ex["hash-duplicate-keys"] {
				k = keys[i]
			}
			parts = append(parts, fmt.Sprintf("'%s': %s", k, pick(r, []string{"1", "2", "'x'", "n1", "s1", "3"})))
		}
		return "{" + strings.Join(parts, ", ") + "}"
	}
	anyMap := func() string {
		if r.P(25) {
			return hashLit()
		}
		return pick(r, maps)
	}
	seg := func() string {
		switch r.N(30) {
		case 0, 1:
			return "{% for k, v in " + anyMap() + " %}{{ k }}={{ v|json_encode }}|{{ loop.index }};{% endfor %}"
		case 2:
			return "{% for v in " + anyMap() + " %}{{ v|json_encode }}{{ loop.first ? 'F' : '' }}{{ loop.last ? 'L' : '' }},{% endfor %}"
		case 3:
			m := anyMap()
			if strings.HasPrefix(m, "{") {
				m = "(" + m + ")"
			}
			return "{{ " + m + "|" + pick(r, []string{"first", "keys|join(',')", "join(',')", "length", "json_encode", "keys|first", "keys|last", rarely(10, "sort|join(',')", "keys|join('')"), "keys|sort|join(',')", "default('d')|json_encode", "keys|reverse|join(',')", "keys|slice(0, 2)|join(',')"}) + " }}"
		case 4:
			arg := pick(r, strKeyed)
			if r.P(25) {
				arg = hashLit()
			}
			return "{{ " + rarely(6, pick(r, maps), pick(r, untyped)) + "|merge(" + rarely(6, anyMap(), arg) + ")|" + pick(r, []string{"json_encode", "keys|join(',')", "length", "first"}) + " }}"
		case 5:
			n := r.Range(1, 5)
			var f strings.Builder
			for i := 0; i < n; i++ {
				f.WriteByte(dateLetters[r.N(len(dateLetters))])
				if r.P(60) {
					f.WriteString(pick(r, []string{" ", "-", "/", ":", ", ", "."}))
				}
			}
			return "{{ " + pick(r, []string{"d1", "d2"}) + "|date('" + f.String() + "') }}"
		case 6:
			return "{{ " + pick(r, []string{"d1", "d2"}) + "|date('" + pick(r, []string{"D, d M Y", "Y-m-d H:i:s", "l jS F Y", "d/m/y g:i a", "F j, Y", "M d", "H:i", "D M j G:i:s Y"}) + "') }}"
		case 7:
			if ex["print-struct-with-nested-pointer"] {
				return "{{ " + pick(r, []string{"pm", "p1", "p1.Meta", "m2", "nm", "lab", "l2", "mi", "pp.Inner"}) + " }}"
			}
			return "{{ " + pick(r, []string{"pp", "pm", "p1", "p1.Meta", "m2", "nm", "lab", "l2", "mi", "pp.Inner"}) + " }}"
		case 8:
			if len(g.names) > 0 {
				return "{% include '" + g.names[0] + "' with " + hashLit() + " %}"
			}
			return g.text()
		case 9:
			return "{% set h = " + hashLit() + " %}{% for k, v in h %}{{ k }}{{ v }}{% endfor %}{{ h|keys|join('') }}"
		case 10:
			return "{{ '" + pick(r, []string{"a", "k1", "zz", "one"}) + "' in " + pick(r, []string{"m1", "m2", "si", "(m1|keys)", "(si|keys)"}) + " ? 'in' : 'out' }}"
		case 11:
			return "{% for k, v in " + pick(r, maps) + " %}{% for k2, v2 in " + pick(r, maps) + " %}{{ k }}{{ k2 }}{% endfor %}/{% endfor %}"
		case 12:
			return "{{ " + rarely(5, pick(r, maps), pick(r, jsonable)) + "|json_encode }}"
		case 19:
			if !r.P(20) {
				return g.seg(1)
			}
			// filters taking a hash argument whose entries interact (prefix-overlapping keys, keys that are values of others)
			return "{{ " + pick(r, []string{"':id :id_post'", "'%title %titlecase'", "s2", "'ab abc a'"}) + "|replace(" + pick(r, []string{"{':id': '1', ':id_post': '2', ':i': '3'}", "{'%title': 'T', '%titlecase': 'C'}", "{'a': 'b', 'b': 'a', 'ab': 'c'}", "{'a': 'x', 'abc': 'y', 'ab': 'z'}"}) + ") }}"
		case 18:
			// dot access / subscripts with spellings that match several keys only after case folding or trimming
			return "{{ " + pick(r, []string{"cs.accept", "cs.aCCEPT", "cs.Accept", "cs['ACCEPT']", "cs.b", "cs.B", "cs2.KEY", "cs2.key", "cs2['Key']", "m1.K1", "cs[' b']", "cs2['1']", "cs2['01']", "mx['10']", "mx[10]"}) + "|default('-') }}"
		case 14:
			// `with` values that refer to other keys of the same hash (and to outer variables of the same name)
			return "{% set a = 'A0' %}{% set b = 'B0' %}{% include 'part0' with {'a': 1, 'b': a, 'c': b, 'd': c|default('x')} %}"
		case 15:
			return "{{ merge(" + rarely(6, pick(r, maps), pick(r, untyped)) + ", " + rarely(6, anyMap(), pick(r, strKeyed)) + ")|" + pick(r, []string{"json_encode", "keys|join(',')", "length", "join(',')"}) + " }}"
		case 16:
			m := pick(r, maps)
			nm := pick(r, numeric)
			um := pick(r, untyped)
			if r.P(12) {
				// forms this engine answers with an error for maps (kept rare: they matter when a change starts to support them)
				return "{{ " + pick(r, []string{"max(" + m + ")", "max(" + nm + ")", "min(" + nm + ")", m + "|last", m + "|slice(0, 2)|json_encode", m + "|sort|join(',')", m + "|reverse|json_encode", m + "|merge(" + pick(r, maps) + ")|join(',')"}) + " }}"
			}
			return "{{ " + pick(r, []string{m + "|url_encode", m + " ~ ''", um + "|merge(" + pick(r, strKeyed) + ")|join(',')", m + "|keys|length", m + "|first|json_encode", "(" + m + "|length) ~ (" + m + "|keys|first)", m + "|keys|sort|join(',')", m + "|keys|reverse|join(',')"}) + " }}"
		case 17:
			return "{% macro mm(name = 'q', id = name, label = id) %}[{{ name }}|{{ id }}|{{ label }}]{% endmacro %}{% set name = 'outer' %}{{ mm() }}{{ mm('u') }}{{ _self.mm('u', 'v') }}"
		case 21:
			// lists of hashes through order-sensitive filters: elements that differ in several keys with opposite
			// orderings, so that a comparison which walks the hashes must walk them in a fixed order
			l := pick(r, []string{"rows", "rows", "[{'x': 2, 'y': 1}, {'x': 1, 'y': 2}, {'y': 0, 'x': 3}]", "rows|reverse", "l2"})
			return "{{ " + l + "|" + pick(r, []string{"sort|json_encode", "sort|first|json_encode", "sort|last|json_encode", "sort|reverse|json_encode", "sort|slice(0, 2)|json_encode", "first|json_encode"}) + " }}"
		case 23:
			// a hash literal written out of order, and a caller's map with exactly the same key set, in one render
			lit := pick(r, []string{"{'z': 1, 'm': 2, 'a': 3}", "{'m': n1, 'z': s1, 'a': 0}", "{'z': 'Z', 'a': 'A', 'm': 'M'}"})
			return "{% for k, v in " + lit + " %}{{ k }}{% endfor %}{{ (" + lit + ")|keys|join('') }}{% for k, v in zam %}{{ k }}={{ v }};{% endfor %}{{ zam|first }}{{ zam|keys|join(',') }}{{ zam|merge(" + lit + ")|keys|join(',') }}"
		case 24:
			// fields promoted from an embedded struct, looked up more than once
			return "{{ acct.Nick }}{{ acct.Rank }}|{{ acct.Plan }}|{{ acct.Profile.Nick }}{{ acct." + pick(r, []string{"Nick", "Rank", "Plan"}) + " }}{{ acct|json_encode }}"
		case 25:
			// debugging aids print whole values: maps inside them in a fixed order too
			return "{{ dump(" + pick(r, []string{"m1", "m2", "si", "nm", "zam", "{'b': 1, 'a': 2, 'c': [1, {'z': 1, 'y': 2}]}", "rows", "tie", "l2"}) + ") }}"
		case 26:
			// a sandboxed include, and afterwards something the policy would not allow inside it
			return "{% include 'sbpart' sandboxed %}{{ s1|striptags }}{{ '<i>x</i>'|striptags }}{% for k, v in m2 %}{{ k }}{% endfor %}"
		case 27:
			// helpers that might remember something from one call to the next: ONE spelling per program of things other
			// programs spell slightly differently (pattern flags, format strings, separators)
			return pick(r, []string{
				"{{ 'Hello' matches " + pick(r, []string{"'/^h/'", "'/^h/i'"}) + " ? 'y' : 'n' }}{{ S1 matches " + pick(r, []string{"'/upper/'", "'/upper/i'"}) + " ? 'y' : 'n' }}",
				"{{ 1234.5|number_format(" + pick(r, []string{"1, ',', '.'", "1, '.', ','", "2", "0"}) + ") }}",
				"{{ d1|date(" + pick(r, []string{"'Y-m-d'", "'d/m/Y'", "'Y'"}) + ") }}{{ 'a,b;c'|split(" + pick(r, []string{"','", "';'"}) + ")|join('|') }}",
				"{{ 'x%sy'|format(" + pick(r, []string{"'A'", "'b'"}) + ") }}{{ 'aXbxc'|replace(" + pick(r, []string{"'x', '-'", "'X', '-'"}) + ") }}",
			})
		case 28:
			// inheritance, imports and includes in one render (nested contexts), reached through an include
			return "{% include 'c3child' %}{% import 'lib3' as L3 %}{{ L3.ma(s1) }}{% include 'part0' with {'a': n1, 'b': s1} %}{% include 'c3child' %}"
		case 29:
			// typed slices through order-changing filters, looked at before and after
			return "{{ sl|first }}{{ il|first }}{{ sl|sort|join(',') }}{{ il|sort|reverse|first }}{{ sl|last }}{{ sl|reverse|first }}{{ il|join(',') }}"
		case 22:
			// the same name bound twice in one construct: which binding wins must be decided by the source text
			return pick(r, []string{
				"{% from 'lib3' import ma as w, mb as w %}{{ w(1) }}",
				"{% from 'lib3' import ma as w, mb as w, mc as w %}{{ w(2) }}",
				"{% from 'lib3' import ma, mb as ma %}{{ ma(3) }}",
				"{% from 'lib3' import mb as ma, ma %}{{ ma(4) }}",
				"{% macro z() %}first{% endmacro %}{% macro z() %}second{% endmacro %}{{ z() }}{{ _self.z() }}",
				"{% import 'lib3' as L %}{% import 'lib3b' as L %}{{ L.ma(5) }}",
				"{% from 'lib3' import ma %}{% from 'lib3b' import ma %}{{ ma(6) }}",
				"{% set q = 1 %}{% set q = 2 %}{{ q }}{% include 'part0' with {'a': 1, 'A': 2, 'a': 3} %}",
			})
		default:
			return g.seg(1)
		}
	}
	p := &Program{Ctx: ctx}
	p.Templates = append(p.Templates,
		Tmpl{Name: "lib3", Segs: []string{"{% macro ma(x) %}A({{ x }}){% endmacro %}{% macro mb(x) %}B({{ x }}){% endmacro %}{% macro mc(x) %}C({{ x }}){% endmacro %}"}},
		Tmpl{Name: "c3base", Segs: []string{"<base {% block b %}B{{ s1 }}{% endblock %}|{% block c %}C{% endblock %}>"}},
		Tmpl{Name: "c3child", Segs: []string{"{% extends 'c3base' %}{% block b %}{% for k, v in m2 %}{{ k }}{% endfor %}{{ parent() }}{% endblock %}"}},
		Tmpl{Name: "sbpart", Segs: []string{"<sb {{ n1 }}{{ m2|keys|json_encode }}>"}},
		Tmpl{Name: "lib3b", Segs: []string{"{% macro ma(x) %}A2({{ x }}){% endmacro %}{% macro mb(x) %}B2({{ x }}){% endmacro %}"}})
	part := Tmpl{Name: "part0", Segs: []string{"[{{ a|default('-') }}{{ b|default('-') }}{{ c|default('-') }}{{ d|default('-') }}]"}}
	p.Templates = append(p.Templates, part)
	g.names = []string{"part0"}
	main := Tmpl{Name: "main"}
	n := r.Range(1, 5)
	for i := 0; i < n; i++ {
		main.Segs = append(main.Segs, seg())
	}
	p.Templates = append(p.Templates, main)
	p.Main = "main"
	return p
}

func (propC03) Gen(seed uint64, ex map[string]bool) interface{} {
	r := newR(seed)
	sc := &c03Sc{Prog: genC03Program(r, ex)}
	sc.TwoLoaders = pick(r, []int{0, 0, 0, 0, 0, 0, 0, 1, 1, 2})
	sc.Flood = pick(r, []int{0, 0, 0, 0, 0, 0, 0, 0, 0, 0, 0, 140, 300, 600})
	base := c03Env{Dim: "baseline", MapOrder: simrt.OrderSorted, Clock: 1_700_000_000e9, Pool: simrt.PoolLIFO, Seed: simrt.Mix(seed, 9), Addr: -1}
	sc.Envs = append(sc.Envs, base)
	add := func(dim string, f func(e *c03Env)) {
		e := base
		e.Dim = dim
		e.Seed = simrt.Mix(seed, uint64(len(sc.Envs)))
		f(&e)
		sc.Envs = append(sc.Envs, e)
	}
	add("earlier-renders", func(e *c03Env) { e.Pre = 1 }) // the same engine served other data first
	add("earlier-renders", func(e *c03Env) { e.Pre = 2 })
	add("goroutine-schedule", func(e *c03Env) {}) // nothing differs but the seed that schedules goroutines the library may start
	add("goroutine-schedule", func(e *c03Env) {})
	add("memory-addresses", func(e *c03Env) { e.Addr = 100 }) // same environment, freshly allocated context and engine, eager address reuse
	add("memory-addresses", func(e *c03Env) { e.Addr = 50 })
	add("map-order", func(e *c03Env) { e.MapOrder = simrt.OrderReverse })
	add("map-order", func(e *c03Env) { e.MapOrder = simrt.OrderRotate; e.Rot = 1 })
	add("map-order", func(e *c03Env) { e.MapOrder = simrt.OrderSwap; e.Rot = r.N(4) })
	add("map-order", func(e *c03Env) { e.MapOrder = simrt.OrderShuffle })
	add("map-order", func(e *c03Env) { e.MapOrder = simrt.OrderShuffle })
	add("insertion-order-and-addresses", func(e *c03Env) { e.Build = 1 })
	add("insertion-order-and-addresses", func(e *c03Env) { e.Build = 2 })
	add("clock", func(e *c03Env) { e.Clock += 400 * 86400e9 })
	add("pool", func(e *c03Env) { e.Pool = simrt.PoolFresh })
	n := r.N(4)
	for i := 0; i < n; i++ {
		add("map-order", func(e *c03Env) { e.MapOrder = simrt.OrderRotate; e.Rot = 2 + i })
	}
	add("combined", func(e *c03Env) {
		e.MapOrder = simrt.OrderShuffle
		e.Build = 1
		e.Clock += 86400e9
		e.Pool = simrt.PoolRandom
	})
	return sc
}

// c03Render renders the program twice on one engine in one environment (the second render runs on recycled
// objects and warm process-wide caches) and returns both observations. The renders run as a task of the seeded
// scheduler, so goroutines the library might start are interleaved by the environment's seed, not by the machine.
func c03Render(p *Program, env c03Env, twoLoaders, flood int) (Obs, Obs, *simrt.World) {
	w := simrt.Begin(simrt.Config{Seed: env.Seed, PoolPolicy: env.Pool, MapOrder: env.MapOrder, MapRot: env.Rot, ClockStart: env.Clock, ClockStep: 1e6, AddrReusePct: env.Addr, PreemptDen: 3})
	defer simrt.End()
	twig.SetDebugWriter(io.Discard)
	saved := twig.VerifSwapGlobals(nil)
	defer twig.VerifSwapGlobals(saved)
	e := twig.New()
	installSandbox(e)
	installGlobals(e)
	if twoLoaders == 2 {
		// the same, through the search paths of one FileSystemLoader (a duplicate path entry included)
		w.UseSimFS()
		for _, t := range p.Templates {
			w.FSWrite("first/"+t.Name+".twig", []byte(t.Src()), w.NowNS())
			w.FSWrite("second/"+t.Name+".twig", []byte("SHADOWED-BY-AN-EARLIER-PATH "+t.Name), w.NowNS())
			w.FSWrite("third/"+t.Name+".twig", []byte("SHADOWED-BY-AN-EARLIER-PATH-3 "+t.Name), w.NowNS())
		}
		e.RegisterLoader(twig.NewFileSystemLoader([]string{"first", "second", "first", "third"}))
	} else if twoLoaders == 1 {
		first, second := map[string]string{}, map[string]string{}
		for _, t := range p.Templates {
			first[t.Name] = t.Src()
			second[t.Name] = "SHADOWED-BY-AN-EARLIER-LOADER " + t.Name
		}
		e.RegisterLoader(twig.NewArrayLoader(first))
		e.RegisterLoader(twig.NewArrayLoader(second))
	} else {
		for _, t := range p.Templates {
			e.RegisterString(t.Name, t.Src())
		}
	}
	for k := 0; k < flood; k++ {
		e.RegisterString(fmt.Sprintf("zflood_%d", k), "F")
	}
	ctx := BuildCtx(p.Ctx, env.Build)
	e.RegisterString("zz_other_work", "other work {% for i in [1, 2, 3] %}{{ i }}{{ s1 }}{% endfor %} "+strings.Repeat("filler ", 40)+"{{ m1|json_encode }}")
	var o1, o2 Obs
	held := uint64(0)
	if ab := w.RunOne(func() {
		if env.Pre > 0 {
			observe(nil, func() (string, error) { return e.Render(p.Main, BuildCtx(p.Ctx.Variant(env.Pre), env.Build)) })
		}
		o1 = observe(nil, func() (string, error) { return e.Render(p.Main, ctx) })
		held = strHash(o1.Out)
		// unrelated work on the same engine while the caller still holds the first result
		observe(nil, func() (string, error) { return e.Render("zz_other_work", ctx) })
		o2 = observe(nil, func() (string, error) { return e.Render(p.Main, ctx) })
	}); ab != "" {
		o2 = Obs{Class: "aborted", Err: ab}
	}
	if o1.Class == "ok" && strHash(o1.Out) != held {
		o1.Class = "result-changed-after-return" // a string the caller was given changed while other renders ran
	}
	return o1, o2, w
}

func (propC03) Run(scI interface{}) *Outcome {
	sc := scI.(*c03Sc)
	o := &Outcome{Probes: map[string]int64{}}
	var base Obs
	fp := uint64(0xcbf29ce484222325)
	for i, env := range sc.Envs {
		first, got, w := c03Render(sc.Prog, env, sc.TwoLoaders, sc.Flood)
		for j := range o.Stats {
			o.Stats[j] += w.Stat[j]
		}
		o.Probes["renders_repeated"]++
		if first.Class == "result-changed-after-return" {
			o.FP = simrt.Mix(fp, w.Fingerprint(), strHash(got.Key()))
			o.Viol = &Violation{Oracle: "render-again", Sig: "a returned output changed after it was returned",
				Detail: fmt.Sprintf("template %q (env #%d %+v)\n the string returned by the first render reads %q now", sc.Prog.Sources()[sc.Prog.Main], i, env, tail(first.Out, 200))}
			return o
		}
		if first.Key() != got.Key() {
			o.FP = simrt.Mix(fp, w.Fingerprint(), strHash(got.Key()))
			o.Viol = &Violation{Oracle: "render-again", Sig: "rendering again in the same process gives different output",
				Detail: fmt.Sprintf("template %q (env #%d %+v)\n first render:  %s\n second render: %s", sc.Prog.Sources()[sc.Prog.Main], i, env, first, got)}
			return o
		}
		o.SimNS += w.NowNS() - env.Clock
		fp = simrt.Mix(fp, w.Fingerprint(), strHash(got.Key()))
		if i == 0 {
			base = got
			o.Probes["class_"+got.Class]++
			// "… in the same or another process": a sample of the cases is also rendered by a real fresh process
			// built from the uninstrumented tree (Go's own map order, no history at all)
			if os.Getenv("VERIF_ONESHOT") != "" && sc.TwoLoaders == 0 && sc.Flood == 0 && (strHash(sc.Prog.Sources()[sc.Prog.Main])%12 == 0 || strings.Contains(sc.Prog.Sources()[sc.Prog.Main], " matches ")) {
				if fresh, ok := runOneshot(&oneshotCase{Templates: sc.Prog.Sources(), Main: sc.Prog.Main, Ctx: sc.Prog.Ctx}); !ok {
					o.Probes["fresh_process_could_not_run"]++
				} else {
					o.Probes["fresh_process_renders"]++
					if fresh.Key() != base.Key() {
						o.FP = fp
						o.Viol = &Violation{Oracle: "fresh-process", Sig: "a fresh process renders the case differently",
							Detail: fmt.Sprintf("template %q\n this process (after whatever it rendered before): %s\n fresh process (uninstrumented tree):            %s", sc.Prog.Sources()[sc.Prog.Main], base, fresh)}
						return o
					}
				}
			}
			continue
		}
		o.Probes["environments_compared"]++
		if got.Key() != base.Key() {
			o.FP = fp
			o.Viol = &Violation{Oracle: "all-environments-equal", Sig: "output depends on " + env.Dim,
				Detail: fmt.Sprintf("template %q\n baseline (sorted map order): %s\n under %s (env #%d %+v): %s", sc.Prog.Sources()[sc.Prog.Main], base, env.Dim, i, env, got)}
			return o
		}
	}
	o.FP = fp
	o.Nontrivial = o.Stats[simrt.StKeysPermuted] > 0
	o.Sample = map[string]interface{}{"template": sc.Prog.Sources()[sc.Prog.Main], "environments": len(sc.Envs), "baseline": base.Class + ":" + tail(base.Out, 200)}
	return o
}

func (propC03) Shrink(scI interface{}) []interface{} {
	sc := scI.(*c03Sc)
	var out []interface{}
	clone := func() *c03Sc {
		b, _ := json.Marshal(sc)
		var c c03Sc
		json.Unmarshal(b, &c)
		return &c
	}
	// keep only baseline + one other environment
	if len(sc.Envs) > 2 {
		for i := 1; i < len(sc.Envs); i++ {
			c := clone()
			c.Envs = []c03Env{sc.Envs[0], sc.Envs[i]}
			out = append(out, c)
		}
	}
	for ti, t := range sc.Prog.Templates {
		for si := range t.Segs {
			c := clone()
			s := c.Prog.Templates[ti].Segs
			c.Prog.Templates[ti].Segs = append(s[:si], s[si+1:]...)
			out = append(out, c)
		}
	}
	for ki := range sc.Prog.Ctx.M {
		c := clone()
		m := c.Prog.Ctx.M
		c.Prog.Ctx.M = append(m[:ki], m[ki+1:]...)
		out = append(out, c)
	}
	// shrink maps inside the context
	for ki, kv := range sc.Prog.Ctx.M {
		if len(kv.V.M) > 2 {
			for j := range kv.V.M {
				c := clone()
				m := c.Prog.Ctx.M[ki].V.M
				c.Prog.Ctx.M[ki].V.M = append(m[:j], m[j+1:]...)
				out = append(out, c)
			}
		}
	}
	return out
}

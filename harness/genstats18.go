package main

import (
	"flag"
	"fmt"
	"regexp"
	"sort"

	"github.com/semihalev/twig"
	"simrt"
)

func init() {
	extraCmds["genstats18"] = func(args []string) {
		fs := flag.NewFlagSet("genstats18", flag.ExitOnError)
		n := fs.Int("n", 1000, "")
		fs.Parse(args)
		num := regexp.MustCompile(`[0-9]+`)
		counts := map[string]int{}
		example := map[string]string{}
		classes := map[string]int{}
		for i := 0; i < *n; i++ {
			sc := propC18{}.Gen(uint64(i)+5, map[string]bool{}).(*c18Sc)
			for _, src := range sc.Templates {
				simrt.Begin(simrt.Config{Seed: 1, PoolPolicy: simrt.PoolFresh})
				e := twig.New()
				e.RegisterString("part", sc.Part)
				e.RegisterString("lib18", c18Lib)
				installGlobals(e)
				installSandbox(e)
				var o Obs
				if err := e.RegisterString("t", src); err != nil {
					o = Obs{Class: "error", Err: "register: " + err.Error()}
				} else {
					o = observe(nil, func() (string, error) { return e.Render("t", c18Build(sc.Ctx)) })
				}
				simrt.End()
				classes[o.Class]++
				if o.Class != "ok" {
					k := num.ReplaceAllString(tail(o.Err, 140), "N")
					counts[k]++
					if _, ok := example[k]; !ok {
						example[k] = src
					}
				}
			}
		}
		fmt.Println(classes)
		var ks []string
		for k := range counts {
			ks = append(ks, k)
		}
		sort.Slice(ks, func(i, j int) bool { return counts[ks[i]] > counts[ks[j]] })
		for i, k := range ks {
			if i > 14 {
				break
			}
			fmt.Printf("%5d %s\n      e.g. %q\n", counts[k], k, tail(example[k], 400))
		}
	}
}

package main

import (
	"encoding/json"
	"errors"
	"fmt"
	"io"
	"regexp"
	"strconv"
	"syscall"

	"github.com/semihalev/twig"
	"simrt"
)

// C15 — template cache and loaders always serve the source the configuration calls for.

type c15Op struct {
	K    string `json:"k"` // setcache setreload devmode register lset touch ldel clock load render fault racewrite addloader chainadd
	L    int    `json:"l,omitempty"`
	Name string `json:"name,omitempty"`
	B    bool   `json:"b,omitempty"`
	D    int64  `json:"d,omitempty"`   // clock delta in seconds
	F    string `json:"f,omitempty"`   // fault kind: load-eio | mtime-err
	At   int    `json:"at,omitempty"`  // racewrite: after how many further loader-level calls "another process" rewrites the template
	Via  int    `json:"via,omitempty"` // register: 0 RegisterString, 1 ParseTemplate+RegisterTemplate, 2 RegisterCompiledTemplate, 3 LoadFromCompiledData; addloader: index into the loader kinds
}

type c15Sc struct {
	WorldSeed uint64   `json:"world_seed"`
	Loaders   []string `json:"loaders"` // simts | array | fs | compiled | chain
	Names     []string `json:"names"`
	Ops       []c15Op  `json:"ops"`
}

type propC15 struct{}

func init() { register(propC15{}) }

func (propC15) ID() string    { return "C15" }
func (propC15) Race() bool    { return false }
func (propC15) Level() string { return "exploration" }
func (propC15) Rule() string {
	return "one run = a seeded history of up to 40 operations (SetCache, SetAutoReload, SetDevelopmentMode, registration through RegisterString / ParseTemplate+RegisterTemplate / RegisterCompiledTemplate / LoadFromCompiledData with stored timestamps unrelated to the clock, RegisterLoader and ChainLoader.AddLoader in mid-history, loader content change / touch / delete, simulated-clock steps of 0 s, 1 s, backwards, one-shot loader faults EIO / mtime error, Load, Render directly or through a fixed wrapper template that includes / extends the name; plus one empty-source leg per run: a fresh engine whose first loader holds a name with the empty string as source) over 1-3 names and 1-3 loaders out of {timestamp-aware in-memory loader with read counters, ArrayLoader, ChainLoader, FileSystemLoader and CompiledLoader on the simulated disk}. Every version of every source carries a unique tag, so the version a call served is read off its result; an executable state machine written from the property text gives the admissible versions, the error class and whether the loaders must / must not have been read. distinct = distinct event-log hash; non-trivial = the history contains a reload decision (cached entry with auto-reload on) or a cache-mode change before a Load/Render"
}
func (propC15) Assumptions() []string {
	return []string{
		"stated don't-cares: content changed while the reported timestamp is equal or older (either version admissible); non-timestamp-aware loader content changed under auto-reload (either version); a name that is only registered while caching is off (registered version or loader result); the call during which an injected fault fires may fail or serve the previously cached version, the next call must be right",
		"a FileSystemLoader has one search path (its internal path memo across several paths is not part of the property)",
		"map iteration order pinned to sorted",
	}
}
func (propC15) MainFaults() []string {
	return []string{"loads_checked", "reload_decisions", "loader_faults_fired"}
}

func (propC15) Decode(raw []byte) (interface{}, error) {
	var sc c15Sc
	err := json.Unmarshal(raw, &sc)
	return &sc, err
}

func (propC15) Gen(seed uint64, ex map[string]bool) interface{} {
	r := newR(seed)
	sc := &c15Sc{WorldSeed: simrt.Mix(seed, 5)}
	kinds := c15Kinds
	nl := r.Range(1, 3)
	maxOps, maxNames := 40, 3
	if ex["tier:thorough"] {
		nl = r.Range(1, 4)
		maxOps, maxNames = 150, 4
	}
	for i := 0; i < nl; i++ {
		sc.Loaders = append(sc.Loaders, pick(r, kinds))
	}
	sc.Names = []string{"a", "b", "c", "d"}[:r.Range(1, maxNames)]
	inMemory := true
	for _, k := range sc.Loaders {
		if k == "fs" || k == "compiled" || k == "chainfs" {
			inMemory = false
		}
	}
	if inMemory && r.P(30) {
		// different spellings that a path-cleaning step would fold together; for in-memory loaders and for the cache
		// they are simply different names
		sc.Names = []string{"a", "./a", "x/../a", "a//b", "a/b"}[:r.Range(2, 5)]
	}
	odd := len(sc.Names[len(sc.Names)-1]) != 1
	n := r.Range(6, maxOps)
	cacheOn := true
	grow := nl > 1 && r.P(40) // histories in which the loader list itself changes (never together with a racing writer)
	for i := 0; i < n; i++ {
		name := pick(r, sc.Names)
		l := r.N(nl)
		if grow && r.P(6) {
			if r.P(50) && nl < 5 {
				via := r.N(len(c15Kinds))
				if odd {
					via = pick(r, []int{0, 1, 2, 5}) // in-memory kinds only: a directory would alias the spellings
				}
				sc.Ops = append(sc.Ops, c15Op{K: "addloader", Via: via})
				nl++
			} else {
				sc.Ops = append(sc.Ops, c15Op{K: "chainadd", L: l})
			}
			continue
		}
		switch c := r.N(34); {
		case c < 2:
			b := r.P(60)
			sc.Ops = append(sc.Ops, c15Op{K: "setcache", B: b})
			cacheOn = b
		case c < 5:
			sc.Ops = append(sc.Ops, c15Op{K: "setreload", B: r.P(65)})
		case c < 6:
			b := r.P(50)
			sc.Ops = append(sc.Ops, c15Op{K: "devmode", B: b})
			cacheOn = !b
		case c < 9:
			if cacheOn {
				sc.Ops = append(sc.Ops, c15Op{K: "register", Name: name, Via: pick(r, []int{0, 0, 1, 2, 3})})
			}
		case c < 15:
			if r.P(5) {
				// somebody saves a version that does not parse (and will probably fix it a little later)
				sc.Ops = append(sc.Ops, c15Op{K: "lsetbad", L: l, Name: name})
			} else if r.P(8) {
				// a timestamp-aware loader may report ANY int64: sign bit, zero, extremes (only the in-memory loader can)
				sc.Ops = append(sc.Ops, c15Op{K: "lsetx", L: l, Name: name, D: pick(r, []int64{-1 << 63, -1 << 62, -1, 0, 1, 1 << 62, 1<<63 - 1, -2, 1 << 33})})
			} else {
				sc.Ops = append(sc.Ops, c15Op{K: "lset", L: l, Name: name})
			}
		case c < 16:
			sc.Ops = append(sc.Ops, c15Op{K: "touch", L: l, Name: name})
		case c < 17:
			sc.Ops = append(sc.Ops, c15Op{K: "ldel", L: l, Name: name})
		case c < 21:
			sc.Ops = append(sc.Ops, c15Op{K: "clock", D: pick(r, []int64{0, 1, 1, 2, 3600, -1, -5})})
		case (c == 31 || c == 30) && nl > 1:
			sc.Ops = append(sc.Ops, c15Op{K: "load", Name: name})
		case c == 31 || c == 30:
			// "another process" rewrites the template in the middle of one of the next calls
			sc.Ops = append(sc.Ops, c15Op{K: "racewrite", L: l, Name: name, At: r.N(4)}, c15Op{K: pick(r, []string{"load", "render"}), Name: name}, c15Op{K: pick(r, []string{"load", "render"}), Name: name})
		case c < 22:
			if !ex["loader-faults"] {
				sc.Ops = append(sc.Ops, c15Op{K: "fault", L: l, F: pick(r, []string{"load-eio", "mtime-err"})})
			}
		case c < 27:
			sc.Ops = append(sc.Ops, c15Op{K: "load", Name: name})
		default:
			sc.Ops = append(sc.Ops, c15Op{K: "render", Name: name, Via: pick(r, []int{0, 0, 0, 1, 2, 3})})
		}
	}
	sc.Ops = append(sc.Ops, c15Op{K: "render", Name: sc.Names[0]}, c15Op{K: "load", Name: sc.Names[len(sc.Names)-1]})
	return sc
}

var c15Kinds = []string{"simts", "simts", "array", "fs", "compiled", "chain", "chainfs"}

// ---- loaders: model + real counterpart ----

type c15File struct {
	ver   int
	mtime int64 // unix seconds
	bad   bool  // this version does not parse: whoever has to read it gets an error (-3), and nothing is cached
}

// v is the version a reader of this file ends up with: its number, or -3 if it does not parse.
func (f c15File) v() int {
	if f.bad {
		return -3
	}
	return f.ver
}

type c15Loader struct {
	kind  string
	ts    bool
	files map[string]c15File   // model content (for chain: of the first inner)
	inner []map[string]c15File // chain: model content of the second, third, … inner loader
	real  twig.Loader
	arr   *twig.ArrayLoader
	arrs  []*twig.ArrayLoader // chain: second, third, … inner loader
	sim   *tsLoader
	dir   string
	fault string
	reads func(name string) int
}

// tsLoader: timestamp-aware in-memory loader with read counters and one-shot faults.
type tsLoader struct {
	src          map[string]string
	mtime        map[string]int64
	loads        map[string]int
	mtimes       map[string]int
	fault        *string
	fired        *int64
	firedMissing *bool             // the fault hit a call for a name this loader does not have
	tick         func(name string) // called at the start and at the end of every loader-level call
}

func (l *tsLoader) Load(name string) (string, error) {
	if l.tick != nil {
		l.tick(name)
		defer l.tick(name)
	}
	s, ok := l.src[name]
	if *l.fault == "load-eio" {
		// the loader is down: it fails whether or not it would have had the name
		*l.fault = ""
		*l.fired++
		if !ok && l.firedMissing != nil {
			*l.firedMissing = true
		}
		return "", fmt.Errorf("read %s: %w", name, syscall.EIO)
	}
	if !ok {
		return "", fmt.Errorf("%w: %s", twig.ErrTemplateNotFound, name)
	}
	l.loads[name]++
	return s, nil
}
func (l *tsLoader) Exists(name string) bool { _, ok := l.src[name]; return ok }
func (l *tsLoader) GetModifiedTime(name string) (int64, error) {
	if l.tick != nil {
		l.tick(name)
		defer l.tick(name)
	}
	if _, ok := l.src[name]; !ok {
		return 0, fmt.Errorf("%w: %s", twig.ErrTemplateNotFound, name)
	}
	if *l.fault == "mtime-err" {
		*l.fault = ""
		*l.fired++
		return 0, fmt.Errorf("stat %s: %w", name, syscall.EIO)
	}
	l.mtimes[name]++
	return l.mtime[name], nil
}

// c15Src: every version of every source carries a unique tag, as literal text and inside a macro (so that a page
// which only imports the template shows which version it got).
func c15Src(name string, ver int) string {
	return fmt.Sprintf("{%% macro tag() %%}[%s#v%d]{%% endmacro %%}[%s#v%d]{{ 1 + 1 }}", name, ver, name, ver)
}

var reVer = regexp.MustCompile(`#v([0-9]+)\]`)

func verOf(s string) int {
	m := reVer.FindStringSubmatch(s)
	if m == nil {
		return -2
	}
	v, _ := strconv.Atoi(m[1])
	return v
}

type c15Cache struct {
	ver    int
	origin int // -1 registered, else loader index
	ts     int64
}

func (propC15) Run(scI interface{}) (o *Outcome) {
	sc := scI.(*c15Sc)
	o = &Outcome{Probes: map[string]int64{}}
	w := simrt.Begin(simrt.Config{Seed: sc.WorldSeed, PoolPolicy: simrt.PoolLIFO, MapOrder: simrt.OrderSorted, ClockStart: 1_700_000_000e9, ClockStep: 0, PreemptDen: 4})
	defer simrt.End()
	defer underScheduler(w, o)()
	w.UseSimFS()
	twig.SetDebugWriter(io.Discard)
	saved := twig.VerifSwapGlobals(nil)
	defer twig.VerifSwapGlobals(saved)
	defer func() {
		o.FP = w.Fingerprint()
		o.Stats = w.Stat
		o.SimNS = w.NowNS() - 1_700_000_000e9
		if o.SimNS < 0 {
			o.SimNS = 0
		}
	}()
	e := twig.New()
	// racing writer: armed by a racewrite op, strikes after `left` further loader-level calls on that template
	var race struct {
		armed bool
		l     int
		name  string
		left  int
		fire  func()
		fired bool
	}
	raceTick := func(li int, name string) {
		if race.armed && race.l == li && race.name == name {
			if race.left == 0 {
				race.armed = false
				race.fired = true
				race.fire()
				return
			}
			race.left--
		}
	}
	var faultsFired int64
	firedMissing := false
	var fsLoaders []*c15Loader
	fsReads := map[string]int{}
	fsFault := map[string]*string{} // dir -> armed fault
	w.FSHook = func(op, path string) error {
		for dir, f := range fsFault {
			if len(path) > len(dir) && path[:len(dir)] == dir {
				if *f == "load-eio" && op == "read" {
					*f = ""
					faultsFired++
					return syscall.EIO
				}
				if *f == "mtime-err" && op == "stat" {
					*f = ""
					faultsFired++
					return syscall.EIO
				}
			}
		}
		if op == "read" {
			fsReads[path]++
		}
		if race.armed {
			for li, l := range fsLoaders {
				if l != nil && len(path) > len(l.dir) && path[:len(l.dir)+1] == l.dir+"/" {
					raceTick(li, fsName(l, path))
				}
			}
		}
		return nil
	}
	nowS := func() int64 { return w.NowNS() / 1e9 }
	var loaders []*c15Loader
	fsLoaders = make([]*c15Loader, len(sc.Loaders), len(sc.Loaders)+8)
	mkLoader := func(i int, k string) *c15Loader {
		l := &c15Loader{kind: k, files: map[string]c15File{}}
		for len(fsLoaders) <= i {
			fsLoaders = append(fsLoaders, nil)
		}
		switch k {
		case "simts":
			l.ts = true
			l.sim = &tsLoader{src: map[string]string{}, mtime: map[string]int64{}, loads: map[string]int{}, mtimes: map[string]int{}, fault: &l.fault, fired: &faultsFired, firedMissing: &firedMissing}
			l.real = l.sim
			li := i
			l.sim.tick = func(name string) { raceTick(li, name) }
			l.reads = func(n string) int { return l.sim.loads[n] }
		case "array":
			l.arr = twig.NewArrayLoader(map[string]string{})
			l.real = l.arr
		case "chain":
			l.arr = twig.NewArrayLoader(map[string]string{})
			l.arrs = []*twig.ArrayLoader{twig.NewArrayLoader(map[string]string{})}
			l.inner = []map[string]c15File{{}}
			l.real = twig.NewChainLoader([]twig.Loader{l.arr, l.arrs[0]})
		case "chainfs":
			// a chain whose first inner loader reads a directory of the simulated disk (files can really disappear)
			l.dir = fmt.Sprintf("chn%d", i)
			l.arrs = []*twig.ArrayLoader{twig.NewArrayLoader(map[string]string{})}
			l.inner = []map[string]c15File{{}}
			l.real = twig.NewChainLoader([]twig.Loader{twig.NewFileSystemLoader([]string{l.dir}), l.arrs[0]})
		case "fs":
			l.ts = true
			l.dir = fmt.Sprintf("tpl%d", i)
			l.real = twig.NewFileSystemLoader([]string{l.dir})
			fsLoaders[i] = l
			fsFault[l.dir] = &l.fault
			l.reads = func(n string) int { return fsReads[l.dir+"/"+n+".twig"] }
		case "compiled":
			l.ts = true
			l.dir = fmt.Sprintf("cmp%d", i)
			l.real = twig.NewCompiledLoader(l.dir)
			fsLoaders[i] = l
			fsFault[l.dir] = &l.fault
			l.reads = func(n string) int { return fsReads[l.dir+"/"+n+".twig.compiled"] }
		}
		e.RegisterLoader(l.real)
		loaders = append(loaders, l)
		return l
	}
	for i, k := range sc.Loaders {
		mkLoader(i, k)
	}
	// fixed wrapper templates that reach a name through include / extends; they live in a loader of their own
	// (after the initial ones, never modified) and are loaded once up front so that they are cached from the start
	wrap := map[string]string{}
	for _, n := range []string{"a", "b", "c", "d"} {
		wrap["winc_"+n] = "<inc>{% include '" + n + "' %}"
		wrap["wext_"+n] = "{% extends '" + n + "' %}"
		wrap["wimp_"+n] = "<imp>{% import '" + n + "' as M %}{{ M.tag() }}"
	}
	e.RegisterLoader(twig.NewArrayLoader(wrap))
	for _, n := range []string{"a", "b", "c", "d"} { // fixed order: a harness map walk would differ between processes
		e.Load("winc_" + n)
		e.Load("wext_" + n)
		e.Load("wimp_" + n)
	}
	badNext := false
	setFile := func(l *c15Loader, name string, ver int, second bool) {
		src := c15Src(name, ver)
		f := c15File{ver: ver, mtime: nowS(), bad: badNext}
		if badNext {
			src += "{% if %}" // a version that does not parse
			badNext = false
		}
		switch l.kind {
		case "simts":
			l.sim.src[name] = src
			l.sim.mtime[name] = f.mtime
		case "array":
			l.arr.SetTemplate(name, src)
		case "chain":
			if second {
				j := (ver / 3) % len(l.arrs)
				l.arrs[j].SetTemplate(name, src)
				l.inner[j][name] = f
				return
			}
			l.arr.SetTemplate(name, src)
		case "chainfs":
			if second {
				j := (ver / 3) % len(l.arrs)
				l.arrs[j].SetTemplate(name, src)
				l.inner[j][name] = f
				return
			}
			w.FSWrite(l.dir+"/"+name+".twig", []byte(src), w.NowNS())
		case "fs":
			w.FSWrite(l.dir+"/"+name+".twig", []byte(src), w.NowNS())
		case "compiled":
			// the timestamps stored INSIDE the compiled file deliberately differ from the file's mtime: the
			// loader's modification time is a property of the file, not of its content
			data, _ := twig.SerializeCompiledTemplate(&twig.CompiledTemplate{Name: name, Source: src, LastModified: 1, CompileTime: 2})
			w.FSWrite(l.dir+"/"+name+".twig.compiled", data, w.NowNS())
		}
		l.files[name] = f
	}
	// what a loader currently serves for a name (model)
	serves := func(l *c15Loader, name string) (c15File, bool) {
		if f, ok := l.files[name]; ok {
			return f, true
		}
		for _, m := range l.inner {
			if f, ok := m[name]; ok {
				return f, true
			}
		}
		return c15File{}, false
	}
	// model state
	cacheOn, autoReload := true, false
	cache := map[string]c15Cache{}
	lastReg := map[string]int{}   // name -> version most recently registered (if registration is the latest event)
	mustServe := map[string]int{} // name -> version a racing writer left behind; the next call that is obliged to look must see it
	nextVer := 0
	faultArmed := false
	fail := func(sig, detail string) *Outcome {
		o.Viol = &Violation{Oracle: "cache-state-machine", Sig: sig, Detail: detail}
		return o
	}
	describe := func() string {
		kinds := []string{}
		for _, l := range loaders {
			kinds = append(kinds, l.kind)
		}
		return fmt.Sprintf("cacheOn=%v autoReload=%v cache=%v loaders=%v", cacheOn, autoReload, cache, kinds)
	}
	configChanged := false
	maxNow := w.NowNS()
	for oi, op := range sc.Ops {
		if w.NowNS() > maxNow {
			maxNow = w.NowNS()
		}
		w.Note("op."+op.K, oi)
		if op.L >= len(loaders) {
			op.L = 0
		}
		switch op.K {
		case "setcache":
			e.SetCache(op.B)
			cacheOn = op.B
			configChanged = true
		case "setreload":
			e.SetAutoReload(op.B)
			autoReload = op.B
			configChanged = true
		case "devmode":
			e.SetDevelopmentMode(op.B)
			autoReload = op.B
			cacheOn = !op.B
			configChanged = true
		case "addloader":
			if len(loaders) < 6 {
				mkLoader(len(loaders), c15Kinds[op.Via%len(c15Kinds)])
				o.Probes["loaders_added"]++
			}
		case "chainadd":
			if l := loaders[op.L]; (l.kind == "chain" || l.kind == "chainfs") && len(l.arrs) < 4 {
				a := twig.NewArrayLoader(map[string]string{})
				l.real.(*twig.ChainLoader).AddLoader(a)
				l.arrs = append(l.arrs, a)
				l.inner = append(l.inner, map[string]c15File{})
				o.Probes["chain_loaders_added"]++
			}
		case "register":
			nextVer++
			if err := c15Register(e, op.Via, op.Name, c15Src(op.Name, nextVer), nowS(), nextVer); err != nil {
				return fail("registration failed", fmt.Sprintf("via %d: %v", op.Via, err))
			}
			o.Probes[fmt.Sprintf("register_via_%d", op.Via)]++
			if cacheOn {
				cache[op.Name] = c15Cache{ver: nextVer, origin: -1}
			}
			lastReg[op.Name] = nextVer
		case "lset":
			nextVer++
			setFile(loaders[op.L], op.Name, nextVer, nextVer%3 == 0)
		case "lsetbad":
			nextVer++
			badNext = true
			setFile(loaders[op.L], op.Name, nextVer, false)
			o.Probes["unparseable_versions"]++
		case "lsetx":
			nextVer++
			if l := loaders[op.L]; l.kind == "simts" {
				l.sim.src[op.Name] = c15Src(op.Name, nextVer)
				l.sim.mtime[op.Name] = op.D
				l.files[op.Name] = c15File{ver: nextVer, mtime: op.D}
				o.Probes["extreme_timestamps"]++
			} else {
				setFile(l, op.Name, nextVer, false)
			}
		case "touch":
			l := loaders[op.L]
			if f, ok := l.files[op.Name]; ok && l.ts {
				f.mtime = nowS()
				l.files[op.Name] = f
				switch l.kind {
				case "simts":
					l.sim.mtime[op.Name] = f.mtime
				case "fs":
					w.FSTouch(l.dir+"/"+op.Name+".twig", w.NowNS())
				case "compiled":
					w.FSTouch(l.dir+"/"+op.Name+".twig.compiled", w.NowNS())
				}
			}
		case "ldel":
			l := loaders[op.L]
			if orig, ok := l.files[op.Name]; ok {
				delete(l.files, op.Name)
				_ = orig
				switch l.kind {
				case "simts":
					delete(l.sim.src, op.Name)
					delete(l.sim.mtime, op.Name)
				case "array", "chain":
					// ArrayLoader has no delete: replace the loader content map entry by re-creating is not possible;
					// model the "deletion" as unsupported for these kinds (restore the entry)
					l.files[op.Name] = orig
				case "fs", "chainfs":
					w.FSRemove(l.dir + "/" + op.Name + ".twig")
				case "compiled":
					w.FSRemove(l.dir + "/" + op.Name + ".twig.compiled")
				}
			}
		case "clock":
			w.AdvanceClock(op.D * 1e9)
		case "racewrite":
			l := loaders[op.L]
			if (l.kind == "simts" || l.kind == "fs" || l.kind == "compiled") && !race.armed {
				if _, has := l.files[op.Name]; has {
					name, li := op.Name, op.L
					race.armed, race.l, race.name, race.left, race.fired = true, li, name, op.At, false
					race.fire = func() {
						// the writer's version carries a timestamp strictly newer than anything recorded so far
						// (after a backwards clock step "newer than now" would not be enough: a change whose
						// timestamp is not newer than the cached one is a stated don't-care)
						d := int64(2e9)
						if maxNow+2e9-w.NowNS() > d {
							d = maxNow + 2e9 - w.NowNS()
						}
						w.AdvanceClock(d)
						nextVer++
						setFile(loaders[li], name, nextVer, false)
						mustServe[name] = nextVer
						o.Probes["racing_writes_fired"]++
					}
				}
			}
		case "fault":
			l := loaders[op.L]
			if l.kind == "simts" || l.kind == "fs" || l.kind == "compiled" {
				l.fault = op.F
				faultArmed = true
			}
		case "load", "render":
			// ---- model ----
			admissible := map[int]bool{}
			mustNotRead, mustRead := -1, -1
			lookup := func() (int, int, int64) { // version, loader index, mtime ; -1 = not found
				for i, l := range loaders {
					if f, ok := serves(l, op.Name); ok {
						return f.v(), i, f.mtime
					}
				}
				return -1, -1, 0
			}
			c, cached := cache[op.Name]
			newCache, setCache := c15Cache{}, false
			switch {
			case cacheOn && cached && !autoReload:
				admissible[c.ver] = true
				mustNotRead = c.origin
			case cacheOn && cached && autoReload:
				o.Probes["reload_decisions"]++
				if c.origin < 0 {
					admissible[c.ver] = true
					break
				}
				l := loaders[c.origin]
				if !l.ts {
					// nothing promised for loaders without timestamps: cached or current
					admissible[c.ver] = true
					if v, _, _ := lookup(); true {
						admissible[v] = true
					}
					break
				}
				f, ok := serves(l, op.Name)
				switch {
				case !ok || f.mtime > c.ts:
					v, li, mt := lookup()
					admissible[v] = true
					mustRead = li
					if v >= 0 {
						newCache, setCache = c15Cache{ver: v, origin: li, ts: mt}, true
					}
				case f.ver == c.ver:
					admissible[c.ver] = true
					mustNotRead = c.origin
					// an earlier loader that meanwhile got the name: the text gives both "first loader
					// wins" and "unchanged template is not re-read"; either answer is admissible
					for i := 0; i < c.origin; i++ {
						if f2, ok := serves(loaders[i], op.Name); ok && f2.ver != c.ver {
							admissible[f2.v()] = true
						}
					}
				default:
					// content changed but the timestamp is not newer: either version
					admissible[c.ver] = true
					admissible[f.v()] = true
				}
			default:
				v, li, mt := lookup()
				admissible[v] = true
				mustRead = li
				if v >= 0 && cacheOn {
					newCache, setCache = c15Cache{ver: v, origin: li, ts: mt}, true
				}
				if rv, ok := lastReg[op.Name]; ok && !cacheOn {
					admissible[rv] = true // only registered, caching off: stated don't-care
				}
			}
			// a racing write that already happened in an EARLIER call: whatever that call cached, a configuration
			// that obliges this call to look at the loader (caching off, or auto-reload with a newer timestamp)
			// must now yield the writer's version, provided that loader is the one that wins for the name
			if mv, ok := mustServe[op.Name]; ok {
				if v, _, mt := lookup(); v == mv && (!cacheOn || autoReload) {
					c0, has := cache[op.Name]
					switch {
					case !cacheOn || !has:
						admissible = map[int]bool{mv: true}
						mustNotRead, mustRead = -1, -1
					case c0.origin >= 0 && mt > c0.ts:
						admissible = map[int]bool{mv: true}
						mustNotRead, mustRead = -1, -1
					case c0.origin >= 0:
						// meanwhile the loader's timestamp was moved back to or below the cached one (touch after a
						// backwards clock step): changed content without a newer timestamp is a stated don't-care
						admissible[mv] = true
						admissible[c0.ver] = true
						mustNotRead, mustRead = -1, -1
					}
				}
				delete(mustServe, op.Name)
			}
			raceBefore := race.fired
			// ---- system ----
			readsBefore := map[int]int{}
			for i, l := range loaders {
				if l.reads != nil {
					readsBefore[i] = l.reads(op.Name)
				}
			}
			namesBefore := fmt.Sprint(sortedStrings(e.GetCachedTemplateNames()))
			firedBefore := faultsFired
			firedMissing = false // (set by the loaders during THIS call only)
			got := -2
			var gerr error
			if op.K == "load" {
				t, err := e.Load(op.Name)
				gerr = err
				if err == nil {
					_, src, _, _ := twig.VerifTemplateMeta(t)
					got = verOf(src)
				}
			} else {
				top, pre := op.Name, ""
				if len(op.Name) != 1 {
					op.Via = 0 // wrapper templates exist for the plain names only
				}
				switch op.Via {
				case 1: // the name is reached through an include in a fixed wrapper template
					top, pre = "winc_"+op.Name, "<inc>"
				case 2: // … through extends
					top = "wext_" + op.Name
				case 3: // … through import: only the template's macro is used
					top, pre = "wimp_"+op.Name, "<imp>"
				}
				suffix := "2"
				if op.Via == 3 {
					suffix = ""
				}
				if op.Via != 0 {
					o.Probes["renders_through_a_wrapper"]++
				}
				out, err := e.Render(top, nil)
				gerr = err
				if err == nil {
					got = verOf(out)
					if out != pre+fmt.Sprintf("[%s#v%d]%s", op.Name, got, suffix) {
						return fail("rendered output is not the tagged source", fmt.Sprintf("op #%d render %s: %q", oi, op.Name, out))
					}
				}
			}
			o.Probes["loads_checked"]++
			if configChanged {
				o.Nontrivial = true
			}
			if race.fired && !raceBefore {
				// the writer struck during THIS call: it may have served the old or the new version; resynchronise the
				// model's cache entry with the engine's but keep mustServe so that the NEXT call is judged strictly
				race.fired = false
				prev := -5
				for v := range admissible {
					prev = v
				}
				_ = prev
				if faultsFired > firedBefore {
					// an injected loader fault hit the same call: it may fail
					o.Probes["loader_faults_fired"]++
					faultArmed = false
					okVerFault := true
					_ = okVerFault
					if t, ok := twig.VerifCached(e)[op.Name]; ok {
						_, src, lm, ld := twig.VerifTemplateMeta(t)
						cc := c15Cache{ver: verOf(src), origin: -1, ts: lm}
						for i, l := range loaders {
							if l.real == ld {
								cc.origin = i
							}
						}
						cache[op.Name] = cc
					} else {
						delete(cache, op.Name)
					}
					delete(lastReg, op.Name)
					continue
				}
				okVer := admissible[got] || got == mustServe[op.Name] || (cached && got == c.ver)
				if gerr != nil && !errors.Is(gerr, twig.ErrTemplateNotFound) {
					okVer = admissible[-3] // only an unparseable version explains an error that is not "not found"
				}
				if !okVer && !(gerr != nil && errors.Is(gerr, twig.ErrTemplateNotFound) && admissible[-1]) {
					return fail("wrong version served while the template was being rewritten", fmt.Sprintf("op #%d %s %s served v%d err=%v; admissible %v or the writer's v%d\n %s", oi, op.K, op.Name, got, gerr, keysOf(admissible), mustServe[op.Name], describe()))
				}
				if t, ok := twig.VerifCached(e)[op.Name]; ok {
					_, src, lm, ld := twig.VerifTemplateMeta(t)
					cc := c15Cache{ver: verOf(src), origin: -1, ts: lm}
					for i, l := range loaders {
						if l.real == ld {
							cc.origin = i
						}
					}
					cache[op.Name] = cc
				} else {
					delete(cache, op.Name)
				}
				delete(lastReg, op.Name)
				continue
			}
			faultNow := faultsFired > firedBefore
			if faultNow {
				o.Probes["loader_faults_fired"]++
				faultArmed = false
			}
			if gerr != nil {
				if errors.Is(gerr, twig.ErrTemplateNotFound) {
					got = -1
				} else {
					got = -3
				}
			}
			w.Note("served", got)
			// refresh the model's cache according to what the system was entitled to do
			actualCache := func() {
				if got >= 0 && cacheOn && (setCache || faultNow) {
					for i, l := range loaders {
						if f, ok := serves(l, op.Name); ok && f.ver == got {
							cache[op.Name] = c15Cache{ver: got, origin: i, ts: f.mtime}
							return
						}
					}
				}
			}
			if faultNow && firedMissing && faultsFired-firedBefore == 1 {
				// the loader that failed does not have the name: it could not have served it, so the call must come out as
				// if that loader had simply said "not found" — except that, with nobody having the name, the error may be the
				// loader's own instead of "not found"
				firedMissing = false
				if !(admissible[got] || (got == -3 && admissible[-1])) {
					return fail("a failing loader that does not have the name changed what was served",
						fmt.Sprintf("op #%d %s %s served v%d err=%v; admissible %v\n %s\n history: %s", oi, op.K, op.Name, got, gerr, keysOf(admissible), describe(), opsText(sc.Ops[:oi+1])))
				}
			}
			firedMissing = false
			if faultNow {
				// the call during which a fault fires: may fail, or serve the cached version, or the right one
				// (a failing loader is skipped, so a later loader that has the name may legitimately serve it)
				fromAnyLoader := false
				for _, l := range loaders {
					if f, ok := serves(l, op.Name); ok && f.ver == got {
						fromAnyLoader = true
					}
				}
				if got == -3 || got == -1 || admissible[got] || (cached && got == c.ver) || fromAnyLoader {
					actualCache()
					// whatever happened, resynchronise the model with the engine's cache for this name
					if t, ok := twig.VerifCached(e)[op.Name]; ok {
						_, src, lm, ld := twig.VerifTemplateMeta(t)
						cc := c15Cache{ver: verOf(src), origin: -1, ts: lm}
						for i, l := range loaders {
							if l.real == ld {
								cc.origin = i
							}
						}
						cache[op.Name] = cc
					} else {
						delete(cache, op.Name)
					}
					continue
				}
				return fail("unrelated version served while a loader fault fired",
					fmt.Sprintf("op #%d %s %s served v%d err=%v; admissible %v\n %s", oi, op.K, op.Name, got, gerr, keysOf(admissible), describe()))
			}
			if got == -3 && !admissible[-3] {
				return fail("unexpected error class", fmt.Sprintf("op #%d %s %s: %v\n %s", oi, op.K, op.Name, gerr, describe()))
			}
			if !admissible[got] {
				kind := "stale or wrong version served"
				if got == -1 {
					kind = "ErrTemplateNotFound although a source is available"
				} else if admissible[-1] && len(admissible) == 1 {
					kind = "a template served although no loader has the name"
				}
				mode := fmt.Sprintf("cache=%v autoreload=%v cached=%v", cacheOn, autoReload, cached)
				return fail(kind+" ("+mode+")",
					fmt.Sprintf("op #%d %s %s served v%d (err=%v); admissible versions %v (-1 = not found)\n model before the call: %s\n history: %s", oi, op.K, op.Name, got, gerr, keysOf(admissible), describe(), opsText(sc.Ops[:oi+1])))
			}
			if got == -1 {
				if after := fmt.Sprint(sortedStrings(e.GetCachedTemplateNames())); after != namesBefore {
					return fail("a failed lookup changed the cache", fmt.Sprintf("op #%d %s %s: cached names %s -> %s", oi, op.K, op.Name, namesBefore, after))
				}
			}
			// read-count obligations (only where the decision was unambiguous)
			if len(admissible) == 1 && !faultArmed {
				if mustNotRead >= 0 && loaders[mustNotRead].reads != nil && loaders[mustNotRead].reads(op.Name) != readsBefore[mustNotRead] {
					return fail("unchanged cached template was re-read from its loader ("+fmt.Sprintf("autoreload=%v", autoReload)+")",
						fmt.Sprintf("op #%d %s %s: loader %d (%s) read count %d -> %d\n %s", oi, op.K, op.Name, mustNotRead, loaders[mustNotRead].kind, readsBefore[mustNotRead], loaders[mustNotRead].reads(op.Name), describe()))
				}
				if mustRead >= 0 && loaders[mustRead].reads != nil && loaders[mustRead].reads(op.Name) == readsBefore[mustRead] {
					return fail("loaders were not re-read although the configuration calls for it ("+fmt.Sprintf("cache=%v", cacheOn)+")",
						fmt.Sprintf("op #%d %s %s: loader %d (%s) read count stayed %d\n %s", oi, op.K, op.Name, mustRead, loaders[mustRead].kind, readsBefore[mustRead], describe()))
				}
			}
			// commit the model's cache update; in don't-care cases follow what the engine did
			if len(admissible) == 1 {
				if setCache {
					cache[op.Name] = newCache
				}
			} else {
				if t, ok := twig.VerifCached(e)[op.Name]; ok && cacheOn {
					_, src, lm, ld := twig.VerifTemplateMeta(t)
					cc := c15Cache{ver: verOf(src), origin: -1, ts: lm}
					for i, l := range loaders {
						if l.real == ld {
							cc.origin = i // the recorded timestamp stays the engine's own (lm), not the loader's current one
						}
					}
					cache[op.Name] = cc
				}
			}
			delete(lastReg, op.Name)
			if !cacheOn {
				// registration remains the latest event for the don't-care only until a loader serves the name
			}
		}
	}
	// ---- empty-source leg: a loader that HAS a name whose source is the empty string still has it ("the first that
	// has the name wins"): it must be served (as an empty template), never skipped in favour of a later loader and
	// never reported as not found. A fresh engine; the shape and the cache mode are functions of the world seed.
	{
		e2 := twig.New()
		e2.SetCache(sc.WorldSeed/5%2 == 0)
		later := twig.NewArrayLoader(map[string]string{"e": c15Src("e", 1)})
		switch sc.WorldSeed % 5 {
		case 0:
			e2.RegisterLoader(twig.NewArrayLoader(map[string]string{"e": ""}))
			e2.RegisterLoader(later)
		case 1:
			e2.RegisterLoader(twig.NewChainLoader([]twig.Loader{twig.NewArrayLoader(map[string]string{"e": ""}), later}))
		case 2:
			e2.RegisterLoader(twig.NewArrayLoader(map[string]string{"e": ""}))
		case 3: // blanked after a first non-empty version
			a := twig.NewArrayLoader(map[string]string{"e": c15Src("e", 2)})
			e2.RegisterLoader(twig.NewArrayLoader(map[string]string{}))
			e2.RegisterLoader(a)
			e2.RegisterLoader(later)
			if out, err := e2.Render("e", nil); err != nil || verOf(out) != 2 {
				return fail("first loader that has the name does not win", fmt.Sprintf("empty-source leg, before blanking: %q %v", out, err))
			}
			a.SetTemplate("e", "")
			if sc.WorldSeed/5%2 == 0 {
				e2.SetCache(false) // the blanked version can only be seen by a re-read
			}
		case 4:
			lt := &tsLoader{src: map[string]string{"e": ""}, mtime: map[string]int64{"e": 1}, loads: map[string]int{}, mtimes: map[string]int{}, fault: new(string), fired: new(int64)}
			e2.RegisterLoader(lt)
			e2.RegisterLoader(later)
		}
		for round := 0; round < 2; round++ {
			t, err := e2.Load("e")
			if err != nil {
				return fail("a name whose source is empty is not served by the loader that has it", fmt.Sprintf("empty-source leg shape %d round %d: Load: %v", sc.WorldSeed%5, round, err))
			}
			if _, src, _, _ := twig.VerifTemplateMeta(t); src != "" {
				return fail("a name whose source is empty is not served by the loader that has it", fmt.Sprintf("empty-source leg shape %d round %d: Load served %q", sc.WorldSeed%5, round, src))
			}
			if out, err := e2.Render("e", nil); err != nil || out != "" {
				return fail("a name whose source is empty is not served by the loader that has it", fmt.Sprintf("empty-source leg shape %d round %d: Render: %q %v", sc.WorldSeed%5, round, out, err))
			}
		}
		o.Probes["empty_source_legs"]++
	}
	o.Sample = map[string]interface{}{"loaders": sc.Loaders, "names": sc.Names, "ops": opsText(sc.Ops)}
	return o
}

// c15Register registers a source under a name through one of the engine's registration entry points.
// Compiled forms carry timestamps that are deliberately unrelated to the clock (zero, far past, far
// future): a registered template has no loader, so no timestamp may make the engine look elsewhere.
func c15Register(e *twig.Engine, via int, name, src string, now int64, ver int) error {
	lm := []int64{0, 1, now - 86400, now, now + 86400, 1 << 40}[ver%6]
	switch via {
	case 1:
		t, err := e.ParseTemplate(src)
		if err != nil {
			return err
		}
		e.RegisterTemplate(name, t)
		return nil
	case 2:
		return e.RegisterCompiledTemplate(&twig.CompiledTemplate{Name: name, Source: src, LastModified: lm, CompileTime: now})
	case 3:
		data, err := twig.SerializeCompiledTemplate(&twig.CompiledTemplate{Name: name, Source: src, LastModified: lm, CompileTime: now})
		if err != nil {
			return err
		}
		return e.LoadFromCompiledData(data)
	}
	return e.RegisterString(name, src)
}

// fsName maps a path on the simulated disk back to the template name of an fs / compiled loader.
func fsName(l *c15Loader, path string) string {
	n := path[len(l.dir)+1:]
	for _, suf := range []string{".twig.compiled", ".twig"} {
		if len(n) > len(suf) && n[len(n)-len(suf):] == suf {
			return n[:len(n)-len(suf)]
		}
	}
	return n
}

func verOfLoader(l *c15Loader, name string) int {
	if l.arr != nil {
		if s, err := l.arr.Load(name); err == nil {
			return verOf(s)
		}
	}
	return -1
}

func sortedStrings(s []string) []string {
	out := append([]string(nil), s...)
	for i := 1; i < len(out); i++ {
		for j := i; j > 0 && out[j] < out[j-1]; j-- {
			out[j], out[j-1] = out[j-1], out[j]
		}
	}
	return out
}

func keysOf(m map[int]bool) []int {
	var ks []int
	for k := range m {
		ks = append(ks, k)
	}
	for i := 1; i < len(ks); i++ {
		for j := i; j > 0 && ks[j] < ks[j-1]; j-- {
			ks[j], ks[j-1] = ks[j-1], ks[j]
		}
	}
	return ks
}

func opsText(ops []c15Op) string {
	s := ""
	for _, op := range ops {
		switch op.K {
		case "setcache", "setreload", "devmode":
			s += fmt.Sprintf("%s(%v) ", op.K, op.B)
		case "clock":
			s += fmt.Sprintf("clock%+ds ", op.D)
		case "lset", "touch", "ldel":
			s += fmt.Sprintf("%s(L%d,%s) ", op.K, op.L, op.Name)
		case "lsetx":
			s += fmt.Sprintf("lset(L%d,%s,mtime=%d) ", op.L, op.Name, op.D)
		case "lsetbad":
			s += fmt.Sprintf("lset-unparseable(L%d,%s) ", op.L, op.Name)
		case "addloader":
			s += fmt.Sprintf("addloader(%s) ", c15Kinds[op.Via%len(c15Kinds)])
		case "chainadd":
			s += fmt.Sprintf("chainadd(L%d) ", op.L)
		case "register":
			s += fmt.Sprintf("register(%s,via%d) ", op.Name, op.Via)
		case "render":
			s += fmt.Sprintf("render(%s%s) ", op.Name, []string{"", " through include", " through extends", " through import"}[op.Via%4])
		case "fault":
			s += fmt.Sprintf("fault(L%d,%s) ", op.L, op.F)
		default:
			s += fmt.Sprintf("%s(%s) ", op.K, op.Name)
		}
	}
	return s
}

func (propC15) Shrink(scI interface{}) []interface{} {
	sc := scI.(*c15Sc)
	var out []interface{}
	clone := func() *c15Sc {
		b, _ := json.Marshal(sc)
		var c c15Sc
		json.Unmarshal(b, &c)
		return &c
	}
	for size := len(sc.Ops) / 2; size >= 1; size /= 2 {
		for at := 0; at+size <= len(sc.Ops); at += size {
			c := clone()
			c.Ops = append(c.Ops[:at], c.Ops[at+size:]...)
			out = append(out, c)
		}
	}
	if len(sc.Loaders) > 1 {
		for i := range sc.Loaders {
			c := clone()
			c.Loaders = append(c.Loaders[:i], c.Loaders[i+1:]...)
			for j := range c.Ops {
				if c.Ops[j].L > i {
					c.Ops[j].L--
				} else if c.Ops[j].L == i && (c.Ops[j].K == "lset" || c.Ops[j].K == "lsetx" || c.Ops[j].K == "lsetbad" || c.Ops[j].K == "touch" || c.Ops[j].K == "ldel" || c.Ops[j].K == "fault") {
					c.Ops[j].K = "nop"
				}
			}
			out = append(out, c)
		}
	}
	for i, k := range sc.Loaders {
		if k != "simts" {
			c := clone()
			c.Loaders[i] = "simts"
			out = append(out, c)
		}
	}
	return out
}

package main

import (
	"encoding/json"
	"errors"
	"fmt"
	"io"
	"io/fs"
	"regexp"
	"strings"

	"github.com/semihalev/twig"
	"simrt"
)

// C17 — failures during rendering surface as errors that wrap their cause.

// simLoader is an in-memory loader whose invocations are fallible and counted together with the
// spy callbacks, so "the k-th fallible invocation of the program" is well defined.
type simLoader struct {
	src  map[string]string
	sp   *Spies
	down *bool // set while the injected outage lasts (read by the mirror)
}

func (l *simLoader) Load(name string) (string, error) {
	s, ok := l.src[name]
	if !ok {
		return "", fmt.Errorf("%w: %s", twig.ErrTemplateNotFound, name)
	}
	if err := l.sp.hit("loader", name); err != nil {
		if l.down != nil {
			*l.down = true
		}
		return "", err
	}
	if l.down != nil {
		*l.down = false
	}
	return s, nil
}

// mirrorLoader has the same templates; it is asked only when the first loader failed, and it fails with an
// error of its own while the first loader's outage lasts.
type mirrorLoader struct {
	src  map[string]string
	down *bool
}

func (l *mirrorLoader) Load(name string) (string, error) {
	s, ok := l.src[name]
	if !ok {
		return "", fmt.Errorf("%w: %s", twig.ErrTemplateNotFound, name)
	}
	if *l.down {
		return "", fmt.Errorf("mirror unreachable: %w", &InjectedFault{K: -2})
	}
	return s, nil
}

func (l *mirrorLoader) Exists(name string) bool { _, ok := l.src[name]; return ok }

func (l *simLoader) Exists(name string) bool { _, ok := l.src[name]; return ok }

// simTSLoader is the same loader with modification times (all templates share one, bumped by the
// harness). Only Load is a fallible invocation: a failing stat followed by a successful read is a
// loader that recovered, not a failed render.
type simTSLoader struct {
	simLoader
	mt int64
}

func (l *simTSLoader) GetModifiedTime(name string) (int64, error) {
	if _, ok := l.src[name]; !ok {
		return 0, fmt.Errorf("%w: %s", twig.ErrTemplateNotFound, name)
	}
	return l.mt, nil
}

type c17Sc struct {
	Prog    *Program `json:"prog"`
	Pool    int      `json:"pool"`
	Unknown []string `json:"unknown_variants"` // main-template sources with one name replaced by an unknown one
	Debug   bool     `json:"debug"`
	MaxK    int      `json:"max_k,omitempty"`  // cap on enumerated fault positions (default 64)
	Warm    bool     `json:"warm,omitempty"`   // the engine has rendered the program before; auto-reload is on and every template has changed on "disk" since (timestamp-aware loader), so the observed render re-reads what it had cached
	Mirror  bool     `json:"mirror,omitempty"` // a second loader with the same content whose calls fail exactly when the first one's do (one outage, two loaders)
	FS      bool     `json:"fs,omitempty"`     // the templates live on the simulated disk behind the stock FileSystemLoader; a failing read is the loader's failure
	Via     string   `json:"via,omitempty"`    // "" = Engine.Render, "renderto" = Engine.RenderTo, "load" = Load + Template.Render, "compiled" = the main template reaches the engine as compiled bytes
}

type propC17 struct{}

func init() { register(propC17{}) }

func (propC17) ID() string    { return "C17" }
func (propC17) Race() bool    { return false }
func (propC17) Level() string { return "fault_enumeration" }
func (propC17) Rule() string {
	return "one run = one generated program (template set through a fallible loader, every filter/function/test position able to carry a spy callback: print, filter chain, arguments, if/elseif conditions, for sequence and body, set, include-with, blocks of an extends chain, parent(), macro defaults/arguments/bodies, apply, spaceless). Step 1 renders it fault-free and records the ordered fallible invocations I_1..I_N; step 2 enumerates every k<=N (cap 64): a fresh engine renders with I_k returning a unique injected error; oracle: out==\"\" and err!=nil and errors.Is/As finds the injected fault; afterwards the same engine must render fault-free like step 1. Per program also variants with one filter/function/test/template name replaced by an unknown one (err!=nil, out==\"\"). evaluations = fault-injected renders; distinct = distinct (program hash, k); non-trivial = the injected invocation was reached and returned the fault"
}
func (propC17) Assumptions() []string {
	return []string{
		"loader faults are generic I/O-style errors, deliberately not ErrTemplateNotFound, so `ignore missing` is not an excuse",
		"exempt exactly: undefined variables/attributes and `ignore missing` with a not-found error",
		"programs are sampled; for each program every single-invocation fault position up to 64 is enumerated",
		"of a timestamp-aware loader only Load is failed, not GetModifiedTime (a failing stat followed by a successful read is a loader that recovered)",
	}
}
func (propC17) MainFaults() []string {
	return []string{"faults_injected", "kind_filter", "kind_function", "kind_test", "kind_loader"}
}

func (propC17) Decode(raw []byte) (interface{}, error) {
	var sc c17Sc
	err := json.Unmarshal(raw, &sc)
	return &sc, err
}

var reFilterName = regexp.MustCompile(`\|(upper|lower|trim|length|join|first|escape|title|capitalize)\b`)
var reFuncName = regexp.MustCompile(`\b(max|min|range)\(`)
var reTestName = regexp.MustCompile(`\bis (even|odd|empty|defined|iterable)\b`)
var reInclude = regexp.MustCompile(`\{% (include|extends|import|from) '([a-z0-9/]+)'`)

func (propC17) Gen(seed uint64, ex map[string]bool) interface{} {
	r := newR(seed)
	f := Feat{Spies: true, SpyPct: 35, MapLoops: false, Include: r.P(70), Inherit: r.P(50), Macros: r.P(60), Dashes: false, Sandbox: true, RelPaths: r.P(40), MacroFiltered: true}
	if ex["macro-text-interpolation"] {
		f.Macros = false
	}
	sc := &c17Sc{Prog: genProgram(r, f), Pool: pick(r, []int{simrt.PoolLIFO, simrt.PoolFresh, simrt.PoolRandom}), Debug: r.P(15), Via: pick(r, []string{"", "", "", "renderto", "load", "compiled"})}
	sc.Warm = r.P(20)
	sc.FS = !sc.Warm && r.P(20)
	sc.Mirror = !sc.Warm && !sc.FS && r.P(25)
	if ex["tier:thorough"] {
		sc.MaxK = 256
	}
	if ex["spaceless-tag"] {
		for ti := range sc.Prog.Templates {
			for si, s := range sc.Prog.Templates[ti].Segs {
				if strings.Contains(s, "{% spaceless %}") {
					sc.Prog.Templates[ti].Segs[si] = "S"
				}
			}
		}
	}
	if r.P(30) {
		// print the callable global somewhere in the main template (in a block if it extends)
		for ti := range sc.Prog.Templates {
			if t := &sc.Prog.Templates[ti]; t.Name == sc.Prog.Main {
				if len(t.Segs) > 0 && strings.Contains(t.Segs[0], "extends") {
					t.Segs = append(t.Segs, "{% block b0 %}{{ cb }}{% endblock %}")
				} else {
					at := r.N(len(t.Segs) + 1)
					t.Segs = append(t.Segs[:at], append([]string{pick(r, []string{"{{ cb }}", "{% if true %}{{ cb }}{% endif %}", "{% for q in [1, 2] %}{{ cb }}{% endfor %}"})}, t.Segs[at:]...)...)
				}
			}
		}
	}
	main := sc.Prog.Sources()[sc.Prog.Main]
	variant := func(re *regexp.Regexp, repl func(m []string) string) {
		locs := re.FindAllStringSubmatchIndex(main, -1)
		if len(locs) == 0 {
			return
		}
		l := locs[r.N(len(locs))]
		m := []string{main[l[0]:l[1]]}
		for i := 2; i+1 < len(l); i += 2 {
			m = append(m, main[l[i]:l[i+1]])
		}
		sc.Unknown = append(sc.Unknown, main[:l[0]]+repl(m)+main[l[1]:])
	}
	variant(reFilterName, func(m []string) string { return "|nosuch_" + m[1] })
	variant(reFuncName, func(m []string) string { return "nosuch_" + m[1] + "(" })
	if !strings.Contains(main, "{% extends") {
		// unknown macro names: on an imported module, on _self, in a from-import list, and as a plain call
		if strings.Contains(main, "import 'lib' as L") {
			sc.Unknown = append(sc.Unknown, main+"{{ L.nosuch_macro(1) }}")
		} else if f.Macros {
			sc.Unknown = append(sc.Unknown, main+"{% import 'lib' as LL %}{{ LL.nosuch_macro(1) }}")
			sc.Unknown = append(sc.Unknown, main+"{% from 'lib' import nosuch_macro %}")
		}
		if r.P(30) {
			sc.Unknown = append(sc.Unknown, main+"{{ _self.nosuch_macro() }}")
		}
	}
	if r.P(50) && !strings.Contains(main, "{% extends") {
		// an unknown function directly under `default` / `length` (top level of a non-inheriting template)
		sc.Unknown = append(sc.Unknown, main+"{{ nosuch_fn(1)|"+pick(r, []string{"default('d')", "length", "default('d')|upper"})+" }}")
	}
	variant(reTestName, func(m []string) string { return "is nosuch_" + m[1] })
	variant(reInclude, func(m []string) string { return "{% " + m[1] + " 'nosuch/" + m[2] + "'" })
	return sc
}

// c17Render performs the top-level call in the scenario's flavour. For RenderTo the bytes written before
// the failure are not part of the observation (the property speaks about Render's return value).
func c17Render(sc *c17Sc, e *twig.Engine, ctx map[string]interface{}) (string, error) {
	switch sc.Via {
	case "renderto":
		var sb strings.Builder
		if err := e.RenderTo(&sb, sc.Prog.Main, ctx); err != nil {
			return "", err
		}
		return sb.String(), nil
	case "load":
		t, err := e.Load(sc.Prog.Main)
		if err != nil {
			return "", err
		}
		return t.Render(ctx)
	}
	return e.Render(sc.Prog.Main, ctx)
}

func c17Engine(sc *c17Sc, sp *Spies, mainSrc string) *twig.Engine {
	e := twig.New()
	src := sc.Prog.Sources()
	if mainSrc != "" {
		src[sc.Prog.Main] = mainSrc
	}
	var tsl *simTSLoader
	if sc.FS {
		w := simrt.W
		names := make([]string, 0, len(src))
		for n := range src {
			names = append(names, n)
		}
		sortStrings(names) // fixed order: a harness map walk would differ between processes
		for _, n := range names {
			w.FSWrite("tpl/"+n+".twig", []byte(src[n]), w.NowNS())
		}
		w.FSHook = func(op, path string) error {
			if op == "read" {
				if err := sp.hit("loader", "fs-read:"+path); err != nil {
					return &fs.PathError{Op: "read", Path: path, Err: err}
				}
			}
			return nil
		}
		e.RegisterLoader(twig.NewFileSystemLoader([]string{"tpl"}))
	} else if sc.Warm {
		tsl = &simTSLoader{simLoader: simLoader{src: src, sp: sp}, mt: 1_700_000_100}
		e.RegisterLoader(tsl)
		e.SetAutoReload(true)
	} else if sc.Mirror {
		down := false
		e.RegisterLoader(&simLoader{src: src, sp: sp, down: &down})
		e.RegisterLoader(&mirrorLoader{src: src, down: &down})
	} else {
		e.RegisterLoader(&simLoader{src: src, sp: sp})
	}
	installSpies(e, &spyHub{per: []*Spies{sp}})
	// every built-in filter, function and test is a fallible, counted invocation too
	twig.VerifWrapCallbacks(e,
		func(name string, f twig.FilterFunc) twig.FilterFunc {
			if strings.HasPrefix(name, "spy") {
				return f
			}
			return func(v interface{}, a ...interface{}) (interface{}, error) {
				if err := sp.hit("filter", "builtin-"+name); err != nil {
					return nil, err
				}
				return f(v, a...)
			}
		},
		func(name string, f twig.FunctionFunc) twig.FunctionFunc {
			if strings.HasPrefix(name, "spy") {
				return f
			}
			return func(a ...interface{}) (interface{}, error) {
				if err := sp.hit("function", "builtin-"+name); err != nil {
					return nil, err
				}
				return f(a...)
			}
		},
		func(name string, f twig.TestFunc) twig.TestFunc {
			if strings.HasPrefix(name, "spy") {
				return f
			}
			return func(v interface{}, a ...interface{}) (bool, error) {
				if err := sp.hit("test", "builtin-"+name); err != nil {
					return false, err
				}
				return f(v, a...)
			}
		})
	// a Go callable among the globals: the print node runs a func(io.Writer) error it finds, so it is one more
	// fallible invocation that writes output of its own before it may fail
	e.AddGlobal("cb", func(w io.Writer) error {
		io.WriteString(w, "<cb")
		if err := sp.hit("callable", "global-cb"); err != nil {
			return err
		}
		io.WriteString(w, ">")
		return nil
	})
	if sc.Debug {
		e.SetDebug(true)
	}
	if sc.Via == "compiled" {
		// the main template comes from its stored form (parsed by LoadFromCompiled, not by Load); everything it
		// refers to still comes through the fallible loader
		if data, err := twig.SerializeCompiledTemplate(&twig.CompiledTemplate{Name: sc.Prog.Main, Source: src[sc.Prog.Main], LastModified: 1_700_000_000, CompileTime: 1_700_000_000}); err == nil {
			e.LoadFromCompiledData(data)
		}
	}
	if tsl != nil {
		// warm-up render without faults, then every template "changes on disk"
		fa := sp.FailAt
		sp.FailAt = 0
		observe(sp, func() (string, error) { return c17Render(sc, e, BuildCtx(sc.Prog.Ctx, 0)) })
		sp.N, sp.Calls, sp.Kinds, sp.Fault, sp.Outer, sp.FailAt = 0, map[string]int{}, nil, nil, nil, fa
		tsl.mt += 10
	}
	return e
}

func (propC17) Run(scI interface{}) (o *Outcome) {
	sc := scI.(*c17Sc)
	o = &Outcome{Probes: map[string]int64{}}
	w := simrt.Begin(simrt.Config{PreemptDen: 4, Seed: 17, PoolPolicy: sc.Pool, MapOrder: simrt.OrderSorted, ClockStart: 1_700_000_000e9, ClockStep: 1e6})
	defer simrt.End()
	defer underScheduler(w, o)()
	if sc.FS {
		w.UseSimFS()
	}
	twig.SetDebugWriter(io.Discard)
	saved := twig.VerifSwapGlobals(nil)
	defer twig.VerifSwapGlobals(saved)
	defer func() {
		o.FP = simrt.Mix(w.Fingerprint(), strHash(sc.Prog.Sources()[sc.Prog.Main]))
		o.Stats = w.Stat
		o.SimNS = w.NowNS() - 1_700_000_000e9
	}()
	ctx := func() map[string]interface{} { return BuildCtx(sc.Prog.Ctx, 0) }
	// step 1: fault-free
	sp0 := newSpies()
	e0 := c17Engine(sc, sp0, "")
	base := observe(sp0, func() (string, error) { return c17Render(sc, e0, ctx()) })
	o.Probes["programs"]++
	o.Probes["class_"+base.Class]++
	if base.Class != "ok" {
		// the program fails by itself (parse error, engine defect outside this property): nothing to enumerate
		o.Sample = map[string]interface{}{"skipped": base.Err}
		return o
	}
	kinds := append([]string(nil), sp0.Kinds...)
	n := len(kinds)
	capK := 64
	if sc.MaxK > 0 {
		capK = sc.MaxK
	}
	if n > capK {
		n = capK
	}
	o.Probes["fallible_invocations"] += int64(len(kinds))
	var sample []string
	for k := 1; k <= n; k++ {
		sp := newSpies()
		sp.FailAt = k
		e := c17Engine(sc, sp, "")
		got := observe(sp, func() (string, error) { return c17Render(sc, e, ctx()) })
		kind := strings.SplitN(kinds[k-1], ":", 2)[0]
		pos := kinds[k-1]
		if i := strings.Index(pos, "#"); i > 0 {
			pos = pos[:i]
		}
		if sp.Fault == nil {
			// the k-th invocation was not reached this time: the fault-free run and this run diverged before k
			return failC17(o, "determinism", "invocation order changed between identical renders", fmt.Sprintf("k=%d %s", k, kinds[k-1]))
		}
		o.Probes["faults_injected"]++
		o.Probes["kind_"+kind]++
		o.Nontrivial = true
		if len(sample) < 6 {
			sample = append(sample, fmt.Sprintf("k=%d %s -> %s", k, kinds[k-1], got.Class))
		}
		detail := func() string {
			return fmt.Sprintf("main template %q\n fail invocation #%d = %s\n result: %s", sc.Prog.Sources()[sc.Prog.Main], k, kinds[k-1], got)
		}
		switch {
		case got.Class == "panic":
			return failC17(o, "fault-propagation", "panic after injected "+pos+" failure", detail())
		case got.Class == "ok":
			return failC17(o, "fault-propagation", "failure swallowed (nil error): "+pos, detail())
		case got.Out != "":
			return failC17(o, "fault-propagation", "non-empty output returned with the error: "+pos, detail())
		}
		var inj *InjectedFault
		var cbe *CallbackError
		_, wrapped := sp.Outer.(*CallbackError)
		if !errors.Is(got.err, sp.Fault) || !errors.As(got.err, &inj) || inj != sp.Fault || !errors.Is(got.err, sp.Outer) || (wrapped && (!errors.As(got.err, &cbe) || cbe != sp.Outer)) {
			return failC17(o, "fault-propagation", "cause not reachable with errors.Is/As: "+pos, detail())
		}
		// the engine must stay usable: same engine, no fault
		sp.FailAt = 0
		sp.Calls = map[string]int{}
		again := observe(sp, func() (string, error) { return c17Render(sc, e, ctx()) })
		if again.Class != base.Class || again.Out != base.Out {
			return failC17(o, "engine-usable-after-failure", "render after a failed render differs: "+pos,
				fmt.Sprintf("main template %q\n after failing invocation #%d = %s\n fault-free: %s\n now:        %s", sc.Prog.Sources()[sc.Prog.Main], k, kinds[k-1], base, again))
		}
	}
	// unresolvable names
	for _, v := range sc.Unknown {
		sp := newSpies()
		e := c17Engine(sc, sp, v)
		got := observe(sp, func() (string, error) { return c17Render(sc, e, ctx()) })
		o.Probes["unknown_name_variants"]++
		what := "filter"
		switch {
		case strings.Contains(v, "nosuch_macro"):
			what = "macro"
		case strings.Contains(v, "nosuch/"):
			what = "template"
		case strings.Contains(v, "is nosuch_"):
			what = "test"
		case strings.Contains(v, "|nosuch_"):
			what = "filter"
		default:
			what = "function"
		}
		if got.Class == "ok" {
			// a name in a branch that is not evaluated legitimately goes unnoticed
			if unevaluated(v) {
				continue
			}
			return failC17(o, "unknown-name", "unknown "+what+" name gave output with a nil error", fmt.Sprintf("template %q\n result: %s", v, got))
		}
		if got.Class == "panic" {
			return failC17(o, "unknown-name", "panic on unknown "+what+" name", fmt.Sprintf("template %q\n result: %s", v, got))
		}
		if got.Out != "" {
			return failC17(o, "unknown-name", "non-empty output with error on unknown "+what, fmt.Sprintf("template %q\n result: %s", v, got))
		}
		if what == "template" && !errors.Is(got.err, twig.ErrTemplateNotFound) {
			return failC17(o, "unknown-name", "unknown template error does not match ErrTemplateNotFound", fmt.Sprintf("template %q\n result: %s", v, got))
		}
	}
	o.Sample = map[string]interface{}{"main": sc.Prog.Sources()[sc.Prog.Main], "fallible_invocations": kinds, "faults": sample}
	return o
}

// unevaluated: the harness cannot cheaply know whether the replaced name sits in a branch that the
// fault-free run never evaluates; such variants are only counted when the name is at top level.
func unevaluated(src string) bool {
	i := strings.Index(src, "nosuch")
	if i < 0 {
		return true
	}
	pre := src[:i]
	depth := strings.Count(pre, "{% if") + strings.Count(pre, "{% for") + strings.Count(pre, "{% macro") + strings.Count(pre, "{% block") -
		strings.Count(pre, "{% endif") - strings.Count(pre, "{% endfor") - strings.Count(pre, "{% endmacro") - strings.Count(pre, "{% endblock")
	// ternaries and short-circuit operators also skip evaluation
	tagStart := strings.LastIndex(pre, "{{")
	if b := strings.LastIndex(pre, "{%"); b > tagStart {
		tagStart = b
	}
	if tagStart < 0 {
		tagStart = 0
	}
	inExpr := pre[tagStart:]
	if strings.HasPrefix(inExpr, "{% set topv = ") && strings.Contains(src, "{% extends") {
		return true // a statement outside the blocks of an extending child: this engine does not run it
	}
	if end := strings.Index(src[i:], "%}"); end >= 0 && strings.Contains(src[i:i+end], "ignore missing") {
		return true // a missing template under `ignore missing` is the documented tolerance
	}
	return depth > 0 || strings.ContainsAny(inExpr, "?") || strings.Contains(inExpr, " and ") || strings.Contains(inExpr, " or ") || strings.Contains(inExpr, "ignore missing")
}

func failC17(o *Outcome, oracle, sig, detail string) *Outcome {
	o.Viol = &Violation{Oracle: oracle, Sig: sig, Detail: detail}
	return o
}

func (propC17) Shrink(scI interface{}) []interface{} {
	sc := scI.(*c17Sc)
	var out []interface{}
	clone := func() *c17Sc {
		b, _ := json.Marshal(sc)
		var c c17Sc
		json.Unmarshal(b, &c)
		return &c
	}
	for ti, t := range sc.Prog.Templates {
		for si := range t.Segs {
			c := clone()
			s := c.Prog.Templates[ti].Segs
			c.Prog.Templates[ti].Segs = append(s[:si], s[si+1:]...)
			c.Unknown = nil
			out = append(out, c)
		}
	}
	for ti, t := range sc.Prog.Templates {
		if t.Name == sc.Prog.Main {
			continue
		}
		c := clone()
		c.Prog.Templates = append(c.Prog.Templates[:ti], c.Prog.Templates[ti+1:]...)
		out = append(out, c)
	}
	if len(sc.Unknown) > 1 {
		for i := range sc.Unknown {
			c := clone()
			c.Unknown = []string{sc.Unknown[i]}
			out = append(out, c)
		}
	}
	for ki := range sc.Prog.Ctx.M {
		c := clone()
		m := c.Prog.Ctx.M
		c.Prog.Ctx.M = append(m[:ki], m[ki+1:]...)
		out = append(out, c)
	}
	if sc.Debug {
		c := clone()
		c.Debug = false
		out = append(out, c)
	}
	if sc.Via != "" {
		c := clone()
		c.Via = ""
		out = append(out, c)
	}
	return out
}

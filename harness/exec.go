package main

import (
	"fmt"
	"io"
	"sort"
	"strings"

	"github.com/semihalev/twig"
	"simrt"
)

// InjectedFault is the unique error a spy returns when told to fail.
type InjectedFault struct{ K int }

func (f *InjectedFault) Error() string { return fmt.Sprintf("injected fault #%d", f.K) }

// CallbackError is what an application's callback typically returns: its own error type around the cause.
type CallbackError struct {
	Op  string
	Err error
}

func (e *CallbackError) Error() string { return e.Op + ": " + e.Err.Error() }
func (e *CallbackError) Unwrap() error { return e.Err }

// Spies counts callback invocations and can fail the n-th fallible invocation.
type Spies struct {
	Calls  map[string]int
	N      int // fallible invocations so far
	FailAt int // 1-based index of the invocation that fails (0 = none)
	Fault  *InjectedFault
	Outer  error    // what the failing callback actually returned: Fault itself or a CallbackError around it
	Kinds  []string // kind/name of every fallible invocation, in order
	Yield  bool     // spies are scheduling points
}

func newSpies() *Spies { return &Spies{Calls: map[string]int{}} }

func (s *Spies) hit(kind, id string) error {
	s.N++
	s.Calls[id]++
	s.Kinds = append(s.Kinds, kind+":"+id)
	if s.Yield {
		simrt.Yield()
	}
	if id == "FAIL" {
		return &InjectedFault{K: -1}
	}
	if s.FailAt != 0 && s.N == s.FailAt {
		s.Fault = &InjectedFault{K: s.N}
		s.Outer = s.Fault
		if s.N%2 == 1 {
			s.Outer = &CallbackError{Op: kind + " " + id, Err: s.Fault}
		}
		return s.Outer
	}
	return nil
}

// failValue is the result a failing callback returns next to its error: nil, the zero value or a
// partial result (`return "", err` is at least as common as `return nil, err`).
func (s *Spies) failValue(pass interface{}) interface{} {
	switch s.N % 3 {
	case 0:
		return nil
	case 1:
		return ""
	}
	return pass
}

func (s *Spies) counts() string {
	ks := make([]string, 0, len(s.Calls))
	for k, v := range s.Calls {
		ks = append(ks, fmt.Sprintf("%s:%d", k, v))
	}
	sort.Strings(ks)
	return strings.Join(ks, ",")
}

// spyHub routes callbacks registered once on a shared engine to the current task's Spies.
type spyHub struct{ per []*Spies }

func (h *spyHub) cur() *Spies {
	if len(h.per) == 1 {
		return h.per[0]
	}
	t := 0
	if w := simrt.W; w != nil {
		t = w.CurrentTask() + 1
	}
	if t < 0 || t >= len(h.per) {
		t = 0
	}
	return h.per[t]
}

func toStr(v interface{}) string { return fmt.Sprint(v) }

// installSandbox gives the engine a security policy (needed by `include … sandboxed`): the default
// policy plus the harness callbacks and a few deterministic built-ins.
func installSandbox(e *twig.Engine) {
	p := twig.NewDefaultSecurityPolicy()
	for _, f := range []string{"spy", "tick", "max", "min", "range", "length", "late_fn"} {
		p.AllowedFunctions[f] = true
	}
	for _, f := range []string{"spyf", "late_f", "json_encode", "keys", "merge", "replace", "url_encode", "round", "number_format"} {
		p.AllowedFilters[f] = true
	}
	e.EnableSandbox(p)
}

// GlobalData is what installGlobals registered on an engine (kept so that C18 can snapshot it).
type GlobalData struct {
	GL   []interface{}
	GM   map[string]interface{}
	GCfg map[string]interface{}
}

// installGlobals registers engine-wide globals: a string, a list, a nested map and a struct pointer.
func installGlobals(e *twig.Engine) *GlobalData {
	g := &GlobalData{
		GL:   append(make([]interface{}, 0, 6), "gz", "ga", 3),
		GCfg: map[string]interface{}{"mode": "prod"},
		GM:   map[string]interface{}{"k": "gv", "n": 4, "inner": map[string]interface{}{"b": 2, "a": 1}, "list": []interface{}{"y", "x"}},
	}
	e.AddGlobal("g1", "G1")
	e.AddGlobal("gn", 11)
	e.AddGlobal("gl", g.GL)
	e.AddGlobal("gm", g.GM)
	e.AddGlobal("gp", &Person{Name: "Glob", Age: 9, Tags: []string{"gt"}})
	e.AddGlobal("gcfg", g.GCfg)
	return g
}

func installSpies(e *twig.Engine, h *spyHub) {
	installSandbox(e)
	installGlobals(e)
	e.AddFunction("late_fn", func(args ...interface{}) (interface{}, error) { return "<fn0>", nil })
	e.AddFilter("late_f", func(v interface{}, args ...interface{}) (interface{}, error) { return toStr(v) + "~f0", nil })
	e.AddFunction("spy", func(args ...interface{}) (interface{}, error) {
		id := "?"
		if len(args) > 0 {
			id = toStr(args[0])
		}
		if err := h.cur().hit("function", id); err != nil {
			var pass interface{} = "partial"
			if len(args) > 1 {
				pass = args[1]
			}
			return h.cur().failValue(pass), err
		}
		if len(args) > 1 {
			return args[1], nil
		}
		return "", nil
	})
	e.AddFilter("spyf", func(v interface{}, args ...interface{}) (interface{}, error) {
		id := "?"
		if len(args) > 0 {
			id = toStr(args[0])
		}
		if err := h.cur().hit("filter", id); err != nil {
			return h.cur().failValue(v), err
		}
		return v, nil
	})
	e.AddTest("spyt", func(v interface{}, args ...interface{}) (bool, error) {
		id := "?"
		if len(args) > 0 {
			id = toStr(args[0])
		}
		if err := h.cur().hit("test", id); err != nil {
			return h.cur().N%2 == 0, err
		}
		return len(toStr(v))%2 == 0, nil
	})
}

// Obs is what a caller can observe of one render: outcome class, output bytes if ok, callback counts.
// Error texts are kept for diagnosis but never compared.
type Obs struct {
	Class string `json:"class"` // ok | error | panic
	Out   string `json:"out"`
	Calls string `json:"calls"`
	Err   string `json:"err,omitempty"`
	err   error
}

func (o Obs) Key() string { return o.Class + "\x00" + o.Out + "\x00" + o.Calls }

func (o Obs) String() string {
	return fmt.Sprintf("%s out=%q calls=[%s] err=%q", o.Class, o.Out, o.Calls, o.Err)
}

func observe(sp *Spies, f func() (string, error)) (o Obs) {
	defer func() {
		if r := recover(); r != nil {
			if simrtAbort(r) {
				panic(r)
			}
			o = Obs{Class: "panic", Err: fmt.Sprint(r)}
			if sp != nil {
				o.Calls = sp.counts()
			}
		}
	}()
	out, err := f()
	if err != nil {
		o = Obs{Class: "error", Err: err.Error(), err: err}
		// Render must return "" with an error; a non-empty out alongside an error is kept visible
		o.Out = out
	} else {
		o = Obs{Class: "ok", Out: out}
	}
	if sp != nil {
		o.Calls = sp.counts()
	}
	return o
}

// underScheduler makes the rest of the calling Run function a task of the world's seeded scheduler (see
// simrt.EnterMain): goroutines the library may start are then interleaved by the seed, not by the machine. Use as
//
//	defer underScheduler(w, o)()
//
// An aborted round (deadlock among goroutines the library started, step cap) becomes a liveness violation.
func underScheduler(w *simrt.World, o *Outcome) func() {
	w.EnterMain()
	return func() {
		r := recover()
		if r != nil && !simrtAbort(r) {
			w.LeaveMain()
			panic(r)
		}
		if ab := w.LeaveMain(); ab != "" && o.Viol == nil {
			o.Viol = &Violation{Oracle: "liveness", Sig: ab + " among goroutines started by the library", Detail: "scheduler round aborted: " + ab}
		}
	}
}

func simrtAbort(r interface{}) bool {
	return strings.Contains(fmt.Sprintf("%T", r), "abortSentinel")
}

// yieldWriter is an io.Writer that is a scheduling point on every write.
type yieldWriter struct{ sb strings.Builder }

func (w *yieldWriter) Write(p []byte) (int, error) {
	simrt.Yield()
	return w.sb.Write(p)
}

var _ io.Writer = (*yieldWriter)(nil)

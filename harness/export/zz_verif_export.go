package twig

// This file is NOT part of semihalev/twig. /verif/cmd/instrument drops it into the scratch copy
// so that the harness can observe internals that the public API does not expose.

import (
	"fmt"
	"io"
	"reflect"
	"sort"
	"strings"
	"unsafe"
)

// VerifCached returns the engine's cached templates.
func VerifCached(e *Engine) map[string]*Template {
	e.mu.RLock()
	defer e.mu.RUnlock()
	out := make(map[string]*Template, len(e.templates))
	for k, v := range e.templates {
		out[k] = v
	}
	return out
}

// VerifTemplateMeta exposes a template's identity fields.
func VerifTemplateMeta(t *Template) (name, source string, lastModified int64, loader Loader) {
	return t.name, t.source, t.lastModified, t.loader
}

// VerifTreeDump renders the node tree of a template by content (pointers followed, never printed)
// and collects the addresses of every pointer/map reachable from it.
func VerifTreeDump(t *Template) (string, []uintptr) {
	var sb strings.Builder
	d := &dumper{sb: &sb, seen: map[uintptr]bool{}}
	d.walk(reflect.ValueOf(&t.nodes).Elem(), 0)
	return sb.String(), d.ptrs
}

type dumper struct {
	sb   *strings.Builder
	seen map[uintptr]bool
	ptrs []uintptr
}

func (d *dumper) walk(v reflect.Value, depth int) {
	if !v.IsValid() {
		d.sb.WriteString("<invalid>")
		return
	}
	if depth > 200 {
		d.sb.WriteString("<deep>")
		return
	}
	switch v.Kind() {
	case reflect.Interface:
		if v.IsNil() {
			d.sb.WriteString("nil")
			return
		}
		d.walk(v.Elem(), depth+1)
	case reflect.Ptr:
		if v.IsNil() {
			d.sb.WriteString("nil")
			return
		}
		p := v.Pointer()
		if d.seen[p] {
			d.sb.WriteString("<cycle>")
			return
		}
		d.seen[p] = true
		d.ptrs = append(d.ptrs, p)
		d.sb.WriteString("&")
		d.walk(v.Elem(), depth+1)
	case reflect.Struct:
		d.sb.WriteString(v.Type().Name())
		d.sb.WriteString("{")
		for i := 0; i < v.NumField(); i++ {
			d.sb.WriteString(v.Type().Field(i).Name)
			d.sb.WriteString(":")
			d.walk(v.Field(i), depth+1)
			d.sb.WriteString(" ")
		}
		d.sb.WriteString("}")
	case reflect.Slice:
		if v.IsNil() {
			d.sb.WriteString("nil[]")
			return
		}
		d.sb.WriteString("[")
		for i := 0; i < v.Len(); i++ {
			d.walk(v.Index(i), depth+1)
			d.sb.WriteString(",")
		}
		d.sb.WriteString("]")
	case reflect.Array:
		d.sb.WriteString("[")
		for i := 0; i < v.Len(); i++ {
			d.walk(v.Index(i), depth+1)
			d.sb.WriteString(",")
		}
		d.sb.WriteString("]")
	case reflect.Map:
		if v.IsNil() {
			d.sb.WriteString("nilmap")
			return
		}
		d.ptrs = append(d.ptrs, v.Pointer())
		var parts []string
		it := v.MapRange()
		for it.Next() {
			var ks, vs strings.Builder
			kd := &dumper{sb: &ks, seen: d.seen}
			kd.walk(it.Key(), depth+1)
			vd := &dumper{sb: &vs, seen: d.seen}
			vd.walk(it.Value(), depth+1)
			d.ptrs = append(d.ptrs, kd.ptrs...)
			d.ptrs = append(d.ptrs, vd.ptrs...)
			parts = append(parts, ks.String()+"=>"+vs.String())
		}
		sort.Strings(parts)
		d.sb.WriteString("map{" + strings.Join(parts, ";") + "}")
	case reflect.String:
		fmt.Fprintf(d.sb, "%q", v.String())
	case reflect.Bool:
		fmt.Fprintf(d.sb, "%v", v.Bool())
	case reflect.Int, reflect.Int8, reflect.Int16, reflect.Int32, reflect.Int64:
		fmt.Fprintf(d.sb, "%d", v.Int())
	case reflect.Uint, reflect.Uint8, reflect.Uint16, reflect.Uint32, reflect.Uint64, reflect.Uintptr:
		fmt.Fprintf(d.sb, "%d", v.Uint())
	case reflect.Float32, reflect.Float64:
		fmt.Fprintf(d.sb, "%g", v.Float())
	case reflect.Func, reflect.Chan, reflect.UnsafePointer:
		d.sb.WriteString(v.Type().String())
	default:
		d.sb.WriteString(v.Kind().String())
	}
}

// VerifGlobals is a snapshot of the process-wide caches.
type VerifGlobals struct {
	attr     map[attributeCacheKey]attributeCacheEntry
	attrSize int
	attrMax  int
	strs     map[string]string
	level    DebugLevel
	enabled  bool
	writer   io.Writer
}

// VerifSwapGlobals installs g (or pristine empty caches if g == nil) and returns what was installed
// before. Used to give the pristine oracle a fresh-process view of the process-wide caches.
func VerifSwapGlobals(g *VerifGlobals) *VerifGlobals {
	old := &VerifGlobals{
		attr: attributeCache.m, attrSize: attributeCache.currSize, attrMax: attributeCache.maxSize,
		strs: globalCache.strings, level: debugger.level, enabled: debugger.enabled, writer: debugger.writer,
	}
	if g == nil {
		fresh := newGlobalStringCache()
		g = &VerifGlobals{attr: make(map[attributeCacheKey]attributeCacheEntry), attrMax: 1000,
			strs: fresh.strings, level: DebugOff, enabled: false, writer: io.Discard}
	}
	attributeCache.m, attributeCache.currSize, attributeCache.maxSize = g.attr, g.attrSize, g.attrMax
	globalCache.strings = g.strs
	debugger.level, debugger.enabled = g.level, g.enabled
	return old
}

// VerifAttrCache reports the attribute cache's size and bound.
func VerifAttrCache() (size, currSize, max int) {
	return len(attributeCache.m), attributeCache.currSize, attributeCache.maxSize
}

// VerifSetAttrCacheMax sets the attribute cache bound (a tuning constant of the engine).
func VerifSetAttrCacheMax(n int) { attributeCache.maxSize = n }

// VerifAttrCached reports whether (type of v, attr) currently has a cache entry.
func VerifAttrCached(v interface{}, attr string) bool {
	t := reflect.TypeOf(v)
	if t == nil {
		return false
	}
	if t.Kind() == reflect.Ptr {
		t = t.Elem()
	}
	_, ok := attributeCache.m[attributeCacheKey{typ: t, attr: attr}]
	return ok
}

// VerifGetAttribute calls the engine's attribute lookup directly.
func VerifGetAttribute(obj interface{}, attr string) (interface{}, error) {
	ctx := &RenderContext{}
	return ctx.getAttribute(obj, attr)
}

var _ = unsafe.Pointer(nil)

// VerifWrapCallbacks replaces every registered filter, function and test by the wrapper's result,
// so that the harness can make any built-in callback invocation fallible and countable.
func VerifWrapCallbacks(e *Engine,
	wf func(name string, f FilterFunc) FilterFunc,
	wfn func(name string, f FunctionFunc) FunctionFunc,
	wt func(name string, f TestFunc) TestFunc) {
	env := e.environment
	names := make([]string, 0, len(env.filters))
	for n := range env.filters {
		names = append(names, n)
	}
	sort.Strings(names)
	for _, n := range names {
		env.filters[n] = wf(n, env.filters[n])
	}
	names = names[:0]
	for n := range env.functions {
		names = append(names, n)
	}
	sort.Strings(names)
	for _, n := range names {
		env.functions[n] = wfn(n, env.functions[n])
	}
	names = names[:0]
	for n := range env.tests {
		names = append(names, n)
	}
	sort.Strings(names)
	for _, n := range names {
		env.tests[n] = wt(n, env.tests[n])
	}
}

// VerifGetItem calls the engine's subscript lookup (x['name']) directly.
func VerifGetItem(container, index interface{}) (interface{}, error) {
	ctx := &RenderContext{}
	return ctx.getItem(container, index)
}

// VerifEngineGlobals returns the engine's globals table itself (bindings), for before/after snapshots.
func VerifEngineGlobals(e *Engine) map[string]interface{} { return e.environment.globals }

package main

import (
	"fmt"
	"strings"
)

// Tmpl is one generated template: its source is the concatenation of self-contained segments,
// so the shrinker can delete segments without breaking the syntax of the rest.
type Tmpl struct {
	Name string   `json:"name"`
	Segs []string `json:"segs"`
}

func (t Tmpl) Src() string { return strings.Join(t.Segs, "") }

// Program is a template set plus a context and the name of the template to render.
type Program struct {
	Templates []Tmpl `json:"templates"`
	Main      string `json:"main"`
	Ctx       *Val   `json:"ctx"`
}

func (p *Program) Sources() map[string]string {
	m := make(map[string]string, len(p.Templates))
	for _, t := range p.Templates {
		m[t.Name] = t.Src()
	}
	return m
}

// Feat selects which constructs the generator may emit.
type Feat struct {
	Spies     bool // spy filters/functions/tests (fallible callbacks)
	MapLoops  bool // for over maps / hash literals / map filters
	Include   bool
	Inherit   bool
	Macros    bool
	Sandbox   bool
	ErrorsPct int  // percentage of programs seeded with a failing construct
	RelPaths  bool // template names in directories, ./ and ../ references
	// MacroFiltered: macro calls that are filtered, concatenated or stored before they are printed. This engine prints
	// the address of the call's closure there instead of running the macro (seen, not claimed: C12), so the output
	// differs between BINARIES; only for checks that never compare across binaries.
	MacroFiltered bool
	Dashes        bool // whitespace-control dashes
	BigText       bool
	SpyPrefix     string
	BlockDashes   bool // dashes on block tags too (many forms are rejected by the parser; used where error outcomes are compared as well)
	SpyPct        int  // probability (percent) that an expression position is wrapped in a spy
}

type gen struct {
	r                    *R
	f                    Feat
	depth                int
	spyN                 int
	names                []string // other templates that may be included/imported
	inApply, inSpaceless bool
	where                []string // enclosing constructs, innermost last (tags spy ids with their position)
	mask                 uint64   // swarm: segment kinds switched off for this program (bit = case number)
	maskSet              bool
	dir                  string // directory part of this program's template names ("" = flat names)
}

// ref gives the spelling under which a template of the program is referenced from another one: with
// directories in play, often relative to the referring template (./x, ../x).
func (g *gen) ref(full string) string {
	if g.dir == "" || !g.r.P(60) {
		return full
	}
	if strings.HasPrefix(full, g.dir) {
		return "./" + full[len(g.dir):]
	}
	return strings.Repeat("../", strings.Count(g.dir, "/")) + full
}

var words = []string{"alpha", "beta", "gamma", "delta", "x", "yz", "Hello World", "a,b,c", "été", "日本", "<b>&\"'</b>", "  pad  ", ""}

func (g *gen) strLit() string {
	if g.r.P(20) {
		// literals with backslash escapes take the parser's unescaping path
		return pick(g.r, []string{`'a\tb'`, `'q\"r'`, `'n\\m'`, `'x\ny'`, `"d\"q"`, `'it\'s'`, `'\{\{ raw \}\}'`, `'tab\there\tand\tthere'`})
	}
	w := pick(g.r, words)
	w = strings.ReplaceAll(w, "'", "")
	return "'" + w + "'"
}

func (g *gen) text() string {
	switch g.r.N(8) {
	case 0:
		return "\n"
	case 1:
		return " é日本 "
	case 2:
		return "<p class=\"c\">t</p>"
	case 3:
		return pick(g.r, []string{"line1\n  line2\t", "line1\n  line2\t", "dos\r\nline\r\n", "mac\rline", "nul\x00byte \x7f"})
	case 4:
		return "% } { # $ \\ '\""
	default:
		return pick(g.r, []string{"A", "bb ", " ccc", "[x]", "-", ".", "T:"})
	}
}

func (g *gen) spyID() string {
	g.spyN++
	pos := "top"
	if len(g.where) > 0 {
		pos = g.where[len(g.where)-1]
	}
	return fmt.Sprintf("%s%s#%d", g.f.SpyPrefix, pos, g.spyN)
}

// at generates a piece with the given construct recorded as the enclosing position.
func (g *gen) at(pos string, f func() string) string {
	g.where = append(g.where, pos)
	s := f()
	g.where = g.where[:len(g.where)-1]
	return s
}

// wrapSpy wraps a scalar expression in a spy call with probability SpyPct.
func (g *gen) wrapSpy(e string) string {
	if g.f.Spies && g.f.SpyPct > 0 && g.r.P(g.f.SpyPct) {
		switch g.r.N(5) {
		case 0:
			return "spy('" + g.spyID() + "', " + e + ")"
		case 1:
			return "(" + e + ")|spyf('" + g.spyID() + "')"
		case 2:
			// a fallible callback as the BASE of a chain of built-in filters (default, length, …)
			return "spy('" + g.spyID() + "', " + e + ")|" + pick(g.r, []string{"default('d')", "default('d')|upper", "length", "upper|default('x')", "e", "trim|default('')", "json_encode"})
		case 3:
			return "(" + e + ")|spyf('" + g.spyID() + "')|" + pick(g.r, []string{"default('d')", "length", "e", "first"})
		default:
			return "spy('" + g.spyID() + "', " + e + ")|spyf('" + g.spyID() + "')"
		}
	}
	return e
}

// par parenthesises an operand that is more than one token: this engine's expression parser does not
// accept a filter (or another operator) on the right-hand operand of a binary operator without them, and a
// program that does not parse explores nothing.
func par(e string) string {
	simple := true
	for _, c := range e {
		if !(c == '.' || c == '_' || c >= '0' && c <= '9' || c >= 'a' && c <= 'z' || c >= 'A' && c <= 'Z') {
			simple = false
			break
		}
	}
	if simple || (strings.HasPrefix(e, "(") && strings.HasSuffix(e, ")") && strings.Count(e, "(") == 1) {
		return e
	}
	return "(" + e + ")"
}

var strVars = []string{"ns", "nk|first", "nk|keys|first", "s1", "s2", "p1.Name", "pp.Name", "m1.k1", "m1['k2']", "sl[0]", "u1", "g1", "gm.k", "gp.Name", "S1", "S2", "p1.name", "m1.K1"}
var intVars = []string{"n1", "n2", "p1.Age", "m1.num", "gn", "loop.index"}

// identifiers that differ from others only by case: S1/s1, N1/n1 (distinct values in the context)
var listVars = []string{"l1", "il", "sl", "p1.Tags", "l2", "gl"}
var mapVars = []string{"m1", "m2", "p1.Meta", "mi", "gm", "nk", "big"}
var strFilters = []string{"upper", "lower", "trim", "capitalize", "title", "escape", "e", "raw", "striptags", "nl2br", "url_encode", "reverse", "length", "default('d')", "replace('a', 'b')", "slice(0, 2)", "first", "last", "json_encode", "spaceless"}
var listFilters = []string{"reverse", "sort", "slice(1, 2)", "merge([7, 8])", "slice(0, 1)"}

func (g *gen) scalar(d int) string {
	if d <= 0 {
		switch g.r.N(4) {
		case 0:
			return g.strLit()
		case 1:
			return fmt.Sprint(g.r.N(20) - 3)
		case 2:
			return pick(g.r, strVars)
		default:
			return pick(g.r, intVars[:5])
		}
	}
	switch g.r.N(16) {
	case 0:
		return par(g.scalar(d-1)) + " ~ " + par(g.scalar(d-1))
	case 1:
		return par(g.num(d-1)) + pick(g.r, []string{" + ", " - ", " * "}) + par(g.num(d-1))
	case 2, 3:
		if g.f.Spies && g.f.SpyPct > 0 && g.r.P(g.f.SpyPct/2) {
			// a fallible callback as a filter ARGUMENT
			return g.at("filter-arg", func() string {
				switch g.r.N(4) {
				case 0:
					return pick(g.r, strVars) + "|default(spy('" + g.spyID() + "', 'd'))"
				case 1:
					return pick(g.r, listVars[:4]) + "|join(spy('" + g.spyID() + "', ','))"
				case 2:
					return "s2|replace('a', spy('" + g.spyID() + "', 'b'))"
				default:
					return "s1|slice(spy('" + g.spyID() + "', 0), 2)"
				}
			})
		}
		return pick(g.r, strVars) + "|" + pick(g.r, strFilters)
	case 4:
		return "(" + g.boolean(d-1) + ") ? " + g.at("ternary-branch", func() string { return g.wrapSpy(g.scalar(d - 1)) }) + " : " + g.at("ternary-branch", func() string { return g.wrapSpy(g.scalar(d - 1)) })
	case 5:
		return pick(g.r, listVars) + "|" + pick(g.r, []string{"length", "first", "last", "join(',')", "join", "json_encode"})
	case 6:
		return pick(g.r, []string{"max", "min"}) + "(" + g.num(d-1) + ", " + g.num(d-1) + ")"
	case 7:
		if g.f.Spies {
			return "spy('" + g.spyID() + "', " + g.scalar(d-1) + ")"
		}
		return g.scalar(0)
	case 8:
		if g.f.Spies {
			return par(g.scalar(d-1)) + "|spyf('" + g.spyID() + "')"
		}
		return g.scalar(0)
	case 9:
		return pick(g.r, strVars) + "|" + pick(g.r, strFilters) + "|" + pick(g.r, strFilters)
	case 10:
		return g.list(d-1) + "|join('-')"
	case 11:
		if g.f.MapLoops {
			return pick(g.r, mapVars) + "|" + pick(g.r, []string{"length", "keys|join(',')", "json_encode", "first", "join(',')"})
		}
		return pick(g.r, mapVars) + "|length"
	case 12:
		return par(g.num(d-1)) + "|" + pick(g.r, []string{"abs", "round", "number_format(2)", "number_format(1, ',', '.')"})
	case 13:
		if g.f.Spies && g.f.SpyPct > 0 && g.r.P(g.f.SpyPct) {
			// a fallible callback in one of many expression positions
			return g.at("expr-operand", func() string {
				e := "spy('" + g.spyID() + "', " + pick(g.r, []string{"s1", "n1", "'k1'", "1"}) + ")"
				return pick(g.r, []string{
					e + " ~ 'x'", "'x' ~ " + e, "-" + e, "not " + e, "(" + e + ")", "[" + e + "]|first", "{'k': " + e + "}|json_encode",
					"l1[spy('" + g.spyID() + "', 0)]", "m1[spy('" + g.spyID() + "', 'k1')]",
					"l1[spy('" + g.spyID() + "', 0)] is defined ? 'd' : 'u'", "m1[spy('" + g.spyID() + "', 'k1')] is not defined ? 'u' : 'd'", "m1['k1'|spyf('" + g.spyID() + "')] is defined ? 'd' : 'u'",
					"-" + e + " < 0 ? 1 : 0", "cycle(['a', 'b'], " + e + ")", "min(" + e + ", 2)", "{(" + e + "): 1}|keys|first", e + " == 'x' ? 'y' : 'n'", e + " in l1 ? 1 : 0",
					"'a' in [" + e + "] ? 1 : 0", "s1 starts with " + e + " ? 1 : 0", "(" + e + " and true) ? 1 : 0", "(true and " + e + ") ? 1 : 0",
					"(false or " + e + ") ? 1 : 0", "max(" + e + ", 1)", "range(1, spy('" + g.spyID() + "', 2))|join", e + " is defined ? 'd' : 'u'",
					e + " is empty ? 'e' : 'f'", "(" + e + " > 0) ? 1 : 0", e + "|length > 0 ? 1 : 0", "s1|default(" + e + ")", "(n1 > 100 ? 'no' : " + e + ")",
				})
			})
		}
		return "pp.Greeting"
	case 14:
		return pick(g.r, []string{"lab", "cycle(['a', 'b', 'c'], n1)", "json_encode(l1)", "length(l1)", "(n1 is same_as(n1)) ? 'same' : 'diff'", "cycle(sl, loop.index|default(2))", "json_encode(gm.inner)", "(s1 is same_as('x')) ? 1 : 2"})
	default:
		return g.scalar(0)
	}
}

func (g *gen) num(d int) string {
	if d <= 0 || g.r.P(50) {
		if g.r.P(50) {
			return fmt.Sprint(g.r.N(12) + 1)
		}
		return pick(g.r, intVars[:5])
	}
	return "(" + g.num(d-1) + pick(g.r, []string{" + ", " - ", " * ", " % "}) + g.num(d-1) + ")"
}

func (g *gen) boolean(d int) string {
	if d <= 0 {
		return pick(g.r, []string{"b1", "true", "false", "n1 > 2", "s1", "u1", "l1", "not b1"})
	}
	switch g.r.N(12) {
	case 0:
		return par(g.boolean(d-1)) + " and " + par(g.boolean(d-1))
	case 1:
		return par(g.boolean(d-1)) + " or " + par(g.boolean(d-1))
	case 2:
		return "not (" + g.boolean(d-1) + ")"
	case 3:
		return par(g.num(d-1)) + pick(g.r, []string{" == ", " != ", " < ", " > ", " <= ", " >= "}) + par(g.num(d-1))
	case 4:
		return pick(g.r, strVars) + " is " + pick(g.r, []string{"defined", "empty", "null", "not defined", "iterable", "not empty", "none", "same_as(s1)", "not same_as(s2)", "not iterable"})
	case 5:
		if g.f.Spies && g.f.SpyPct > 0 && g.r.P(g.f.SpyPct/2) {
			return g.at("test-arg", func() string { return par(g.num(d-1)) + " is divisible_by(spy('" + g.spyID() + "', 3))" })
		}
		return g.num(d-1) + " is " + pick(g.r, []string{"even", "odd", "divisible_by(3)"})
	case 6:
		if g.f.Spies && g.f.SpyPct > 0 && g.r.P(g.f.SpyPct/2) {
			return g.at("in-operand", func() string { return "spy('" + g.spyID() + "', s1) in " + pick(g.r, listVars) })
		}
		return g.scalar(0) + pick(g.r, []string{" in ", " in ", " not in "}) + pick(g.r, listVars)
	case 7:
		return "s1 starts with " + g.strLit()
	case 8:
		if g.r.P(50) {
			// the same pattern with and without the case-insensitive flag
			return pick(g.r, []string{"s1", "s2", "S1", "'Hello'"}) + " matches " + pick(g.r, []string{"'/^h/'", "'/^h/i'", "'/^H/'", "'/^H/i'", "'/L+/'", "'/L+/i'", "'/^a/i'", "'/^a/'"})
		}
		return "s2 ends with " + g.strLit()
	case 9:
		if g.f.Spies {
			return g.scalar(d-1) + " is spyt('" + g.spyID() + "')"
		}
		return g.boolean(0)
	case 10:
		return par(pick(g.r, strVars)) + " == " + g.strLit()
	default:
		return g.boolean(0)
	}
}

func (g *gen) list(d int) string {
	switch g.r.N(8) {
	case 0:
		return "[" + g.at("array-element", func() string { return g.wrapSpy(g.scalar(d - 1)) }) + ", " + g.scalar(0) + ", " + g.scalar(0) + "]"
	case 1:
		return "range(1, " + fmt.Sprint(g.r.N(4)+1) + ")"
	case 2:
		l, f := pick(g.r, listVars[:4]), pick(g.r, listFilters)
		if l != "l1" && strings.HasPrefix(f, "merge(") {
			// merging foreign element types into a typed slice panics in this engine (C05's subject): it would only
			// cut the run short
			f = "merge(" + l + ")"
		}
		return l + "|" + f
	case 3:
		return "s1|split('" + pick(g.r, []string{",", "a", " "}) + "')"
	case 4:
		if g.f.MapLoops {
			return pick(g.r, mapVars) + "|keys"
		}
		return pick(g.r, listVars)
	case 5:
		return "[]"
	default:
		return pick(g.r, listVars)
	}
}

func (g *gen) hash(d int) string {
	n := g.r.Range(1, 3)
	parts := make([]string, n)
	for i := range parts {
		parts[i] = fmt.Sprintf("'h%d': %s", i, g.at("hash-value", func() string { return g.wrapSpy(g.scalar(d - 1)) }))
	}
	return "{" + strings.Join(parts, ", ") + "}"
}

// condSpy optionally turns a condition into one that runs a fallible callback.
func (g *gen) condSpy(c string) string {
	if g.f.Spies && g.f.SpyPct > 0 && g.r.P(g.f.SpyPct) {
		switch g.r.N(3) {
		case 0:
			return "spy('" + g.spyID() + "', s1) is spyt('" + g.spyID() + "')"
		case 1:
			return "s1|spyf('" + g.spyID() + "')"
		default:
			return "n1 is spyt('" + g.spyID() + "')"
		}
	}
	return c
}

// seqSpy optionally passes a for sequence through a fallible callback.
func (g *gen) seqSpy(l string) string {
	if g.f.Spies && g.f.SpyPct > 0 && g.r.P(g.f.SpyPct) {
		if g.r.P(50) {
			return "spy('" + g.spyID() + "', l1)"
		}
		return "l1|spyf('" + g.spyID() + "')"
	}
	return l
}

func (g *gen) dash() string {
	if g.f.Dashes && g.r.P(15) {
		return "-"
	}
	return ""
}

func (g *gen) open(tag string) string {
	if g.f.BlockDashes {
		return "{%" + g.dash() + " " + tag + " " + g.dash() + "%}"
	}
	return "{% " + tag + " %}"
}
func (g *gen) print(e string) string { return "{{" + g.dash() + " " + e + " " + g.dash() + "}}" }
func (g *gen) body(d int) string {
	n := g.r.Range(1, 3)
	var sb strings.Builder
	for i := 0; i < n; i++ {
		sb.WriteString(g.seg(d))
	}
	return sb.String()
}

// seg emits one self-contained template segment.
func (g *gen) seg(d int) string {
	if d <= 0 {
		if g.r.P(40) {
			return g.text()
		}
		return g.print(g.scalar(1))
	}
	if !g.maskSet {
		// swarm testing: every program switches a random third of the construct kinds off, so that the
		// remaining ones occur more densely and in combinations a uniform mix rarely produces
		g.maskSet = true
		for b := 3; b < 23; b++ {
			if g.r.P(33) {
				g.mask |= 1 << uint(b)
			}
		}
	}
	c := g.r.N(23)
	for tries := 0; g.mask&(1<<uint(c)) != 0 && tries < 8; tries++ {
		c = g.r.N(23)
	}
	switch c {
	case 0, 1, 2:
		return g.text()
	case 3, 4, 5:
		return g.print(g.wrapSpy(g.scalar(2)))
	case 6:
		s := g.open("if "+g.at("if-cond", func() string { return g.condSpy(g.boolean(2)) })) + g.at("if-body", func() string { return g.body(d - 1) })
		if g.r.P(40) {
			s += g.open("elseif "+g.at("elseif-cond", func() string { return g.condSpy(g.boolean(1)) })) + g.at("elseif-body", func() string { return g.body(d - 1) })
		}
		if g.r.P(50) {
			s += g.open("else") + g.at("else-body", func() string { return g.body(d - 1) })
		}
		return s + g.open("endif")
	case 7, 8:
		v := pick(g.r, []string{"it", "x", "row"})
		s := g.open("for "+v+" in "+g.at("for-seq", func() string { return g.seqSpy(g.list(1)) })) + g.print(v) + g.print("loop.index") + g.at("for-body", func() string { return g.body(d - 1) })
		if g.r.P(30) {
			s += g.open("else") + g.at("for-else", func() string { return g.seg(0) })
		}
		return s + g.open("endfor")
	case 9:
		if g.f.MapLoops {
			src := pick(g.r, append(append([]string{}, mapVars...), g.hash(1)))
			return g.open("for k, v in "+src) + g.print("k") + "=" + g.print("v|json_encode") + ";" + g.open("endfor")
		}
		return g.open("for k, v in l1") + g.print("k") + ":" + g.print("v") + g.open("endfor")
	case 10:
		v := pick(g.r, []string{"t1", "t2", "s1", "n1"})
		return g.open("set "+v+" = "+g.at("set-value", func() string { return g.wrapSpy(g.scalar(2)) })) + g.print(v)
	case 11:
		if g.f.Include && len(g.names) > 0 {
			name := g.ref(pick(g.r, g.names))
			s := "include '" + name + "'"
			if g.r.P(20) && len(name) > 2 {
				// a computed template name
				// (plain form only: this engine takes the text of a computed name literally when `with` follows)
				return g.open("set incname = '"+name+"'") + g.open("include incname")
			}
			if g.r.P(40) {
				v := g.at("include-with", func() string { return g.wrapSpy(g.scalar(1)) })
				if strings.Contains(v, ",") {
					// the include parser splits the hash at commas: no multi-argument calls in its values
					v = pick(g.r, strVars)
					if g.f.Spies && g.f.SpyPct > 0 {
						v = g.at("include-with", func() string { return "(" + pick(g.r, strVars) + ")|spyf('" + g.spyID() + "')" })
					}
				}
				x := g.scalar(0)
				if strings.Contains(x, ",") {
					x = "0"
				}
				s += " with {'s1': " + v + ", 'extra': " + x + "}"
				if g.r.P(40) {
					s += " only"
				}
			} else if g.r.P(15) {
				s += " only"
			} else if g.r.P(25) {
				// an existing template included with `ignore missing`: only not-found may be ignored
				s = "include '" + name + "' ignore missing"
			}
			if g.f.Sandbox && g.r.P(25) {
				s += " sandboxed"
			}
			return g.open(s)
		}
		return g.text()
	case 12:
		if g.f.Include && g.r.P(50) {
			return g.open("include 'missing_" + fmt.Sprint(g.r.N(3)) + "' ignore missing")
		}
		return g.print(g.scalar(1))
	case 13:
		if g.f.Macros {
			m := fmt.Sprintf("mac%d", g.r.N(100))
			if g.r.P(12) {
				// names that other templates of the same engine use too: a macro defined here, called elsewhere without a
				// definition (an error there), and a macro that shares its name with a built-in function
				switch g.r.N(4) {
				case 0:
					return g.open("macro shared_badge(a)") + "<" + g.print("a") + ">" + g.open("endmacro") + g.print("shared_badge(1)")
				case 1:
					return g.print("shared_badge('x')")
				case 2:
					return g.open("macro max(a, b)") + "[macro " + g.print("a") + "/" + g.print("b") + "]" + g.open("endmacro") + g.print("_self.max(1, 2)")
				default:
					return g.print("max(3, 8)") + g.print("min(3, 8)")
				}
			}
			if g.r.P(25) {
				// a macro that calls itself, and one that calls another macro of the same template
				body := g.at("macro-body", func() string { return g.print(g.wrapSpy(g.scalar(0))) })
				if g.r.P(50) {
					return g.open("macro "+m+"(n, acc = 'r')") + g.print("n") + body + g.open("if n > 0") + g.print("_self."+m+"(n - 1, acc ~ n)") + g.open("else") + g.print("acc") + g.open("endif") + g.open("endmacro") + g.print("_self."+m+"("+pick(g.r, []string{"2", "3", "n1 % 3"})+")")
				}
				return g.open("macro "+m+"i(a)") + "<" + g.print("a") + body + ">" + g.open("endmacro") + g.open("macro "+m+"(a, b)") + g.print("_self."+m+"i(a)") + g.print("_self."+m+"i(b|default('nb'))") + g.open("endmacro") + g.print("_self."+m+"("+g.scalar(0)+")") + g.print(m+"("+g.scalar(0)+", "+g.at("macro-arg", func() string { return g.wrapSpy(g.scalar(1)) })+")")
			}
			def := g.open("macro "+m+"(a, b = "+g.at("macro-default", func() string { return g.wrapSpy(g.strLit()) })+")") + "[" + g.print("a") + "|" + g.print("b") + "]" + g.at("macro-body", func() string { return g.body(0) }) + g.open("endmacro")
			call := g.print(m + "(" + g.at("macro-arg", func() string { return g.wrapSpy(g.scalar(1)) }) + ")")
			if g.f.MacroFiltered && g.r.P(50) {
				call += pick(g.r, []string{g.print(m + "(1)|upper"), g.print("(" + m + "(2)) ~ 'x'"), g.open("set mv = "+m+"(3)") + g.print("mv|upper"), g.print("_self." + m + "(4)|trim")})
			}
			if g.r.P(40) {
				call += g.print("_self." + m + "(" + g.scalar(0) + ", " + g.scalar(0) + ")")
			}
			return def + call
		}
		return g.text()
	case 14:
		if g.inApply {
			return g.text()
		}
		g.inApply = true
		s := g.open("apply "+pick(g.r, []string{"upper", "lower", "trim", "escape"})) + g.at("apply-body", func() string { return g.body(d - 1) }) + g.open("endapply")
		g.inApply = false
		return s
	case 15:
		if g.inSpaceless {
			return g.text()
		}
		g.inSpaceless = true
		s := g.open("spaceless") + "<div> " + g.at("spaceless-body", func() string { return g.body(d - 1) }) + " </div>  <b> x </b>" + g.open("endspaceless")
		g.inSpaceless = false
		return s
	case 16:
		return g.open("verbatim") + "{{ s1 }}{% if %}" + g.open("endverbatim")
	case 17:
		return "{# comment {{ s1 }} #}"
	case 18:
		if g.f.Spies {
			return g.open("do spy('" + g.spyID() + "', " + g.scalar(0) + ")")
		}
		return g.open("do " + g.num(1))
	case 21:
		return g.print(g.hash(1) + "|json_encode")
	case 19:
		if g.f.Spies {
			return g.print("spy('" + g.spyID() + "', " + g.scalar(1) + ")")
		}
		return g.print(g.scalar(1))
	case 20:
		if g.f.Macros && len(g.names) > 0 && g.r.P(60) {
			lib := g.ref("lib")
			if g.r.P(50) {
				return g.open("import '"+lib+"' as L") + g.print("L.box("+g.scalar(1)+")")
			}
			return g.open("from '"+lib+"' import box as bx, tag") + g.print("bx("+g.scalar(0)+")") + g.print("tag("+g.scalar(0)+", 'q')")
		}
		return g.text()
	default:
		return g.print(g.scalar(2))
	}
}

// failing emits a segment that makes rendering fail.
func (g *gen) failing() string {
	switch g.r.N(8) {
	case 6:
		// a render that ends in a recovered panic after it has produced output (merging foreign element types into a
		// typed slice panics in this engine): what the next render sees must not depend on it
		return g.text() + g.print("s1") + g.open("for z in sl|merge([7, 8])") + g.print("z") + g.open("endfor")
	case 7:
		// a failure in the middle of nested output-capturing constructs
		return g.open("apply upper") + "cap " + g.print("s1") + g.open("spaceless") + "<b> " + g.print("nosuchfunc(2)") + " </b>" + g.open("endspaceless") + g.open("endapply")
	case 0:
		return g.print("s1|nosuchfilter")
	case 1:
		return g.print("nosuchfunc(1)")
	case 2:
		return g.open("include 'nosuchtemplate'")
	case 3:
		return g.print("n1 / 0")
	case 4:
		return g.open("if s1 is nosuchtest") + "x" + g.open("endif")
	default:
		if g.f.Spies {
			return g.print("spy('FAIL', 1)")
		}
		return g.print("l1[99]")
	}
}

const libSrc = "{% macro box(v) %}[{{ v }}]{% endmacro %}{% macro tag(v, t = 'b') %}<{{ t }}>{{ v }}</{{ t }}>{% endmacro %}"

// libSrcSpy is the macro library with fallible callbacks inside the macro bodies (built-in filter,
// spy function, spy filter, test), so that a failure inside an imported macro is a reachable position.
const libSrcSpy = "{% set libv = spy('lib-top#0', 'lv')|upper %}{% macro box(v) %}[{{ v|upper }}{{ spy('lib-box-body#1', 1) }}]{% endmacro %}{% macro tag(v, t = 'b') %}<{{ t }}>{% if v is spyt('lib-tag-body#2') %}{{ v|spyf('lib-tag-body#3') }}{% else %}{{ v|lower }}{% endif %}</{{ t }}>{% endmacro %}"

// nastyStrings are values that tend to sit on the edge of special cases: empty, blank, BOM, NUL, quotes,
// backslashes, delimiter look-alikes, case variants, numeric look-alikes, long runs.
var nastyStrings = []string{"", " ", "\xef\xbb\xbfbom", "nul\x00byte", "quote'\"both", "back\\slash", "{{ not a tag }}", "{% nor this %}", "Key", "key", "KEY",
	"1", "01", "1.0", "1e3", "-0", "true", "null", "ünïcödé", "日本語", "tab\there", "line\nbreak", "a,b", "a=b&c=d", "<b>html</b>", "%d %s", strings.Repeat("x", 300)}

func defaultCtx(r *R) *Val {
	s := func(x string) *Val { return &Val{T: "str", S: x} }
	i := func(x int) *Val { return &Val{T: "int", I: int64(x)} }
	person := func(name string, inner *Val) *Val {
		m := []KV{{"Name", s(name)}, {"Age", i(r.N(80))},
			{"Tags", &Val{T: "slist", L: []*Val{s("t1"), s("t2")}}},
			{"Meta", &Val{T: "map", M: []KV{{"z", i(1)}, {"y", s("why")}, {"x", &Val{T: "bool", B: true}}}}}}
		if inner != nil {
			m = append(m, KV{"Inner", inner})
		}
		return &Val{T: "struct", M: m}
	}
	inner := person("In", nil)
	inner.T = "ptr"
	pp := person(pick(r, words), inner)
	pp.T = "ptr"
	return &Val{T: "map", M: []KV{
		{"s1", s(pick(r, words))},
		{"S1", s("UPPER-S1")},
		{"S2", s("hello upper")},
		{"N1", i(777)},
		{"s2", s(pick(r, []string{"a,b,c", "Hello", "x y z", "<i>", "ünï"}))},
		{"n1", i(r.N(10))},
		{"n2", i(r.N(100) - 50)},
		{"b1", &Val{T: "bool", B: r.P(50)}},
		{"f1", &Val{T: "float", F: float64(r.N(1000)) / 8}},
		{"l1", &Val{T: "list", L: []*Val{s("q"), i(3), s("b"), i(1)}}},
		{"l2", &Val{T: "list", L: []*Val{{T: "map", M: []KV{{"id", i(1)}, {"n", s("one")}}}, {T: "map", M: []KV{{"id", i(2)}, {"n", s("two")}}}}}},
		{"il", &Val{T: "ilist", L: []*Val{i(5), i(2), i(9)}}},
		{"sl", &Val{T: "slist", L: []*Val{s("pear"), s("apple"), s("fig")}}},
		{"m1", &Val{T: "map", M: []KV{{"k1", s("v1")}, {"k2", s("v2")}, {"num", i(7)}, {"k0", s("v0")}}}},
		{"m2", &Val{T: "smap", M: []KV{{"b", s("B")}, {"a", s("A")}, {"c", s("C")}}}},
		{"mi", &Val{T: "imap", M: []KV{{"3", s("three")}, {"1", s("one")}, {"2", s("two")}}}},
		{"p1", person("Ann", nil)},
		{"pp", pp},
		{"lab", &Val{T: "stringer", S: "L"}},
		{"big", bigMap()},
		{"ns", &Val{T: "str", S: pick(r, nastyStrings)}},
		{"nk", nastyMap(r)},
	}}
}

// bigMap has 18 entries (tables and caches that only engage above some size).
func bigMap() *Val {
	m := &Val{T: "map"}
	for i := 0; i < 18; i++ {
		m.M = append(m.M, KV{fmt.Sprintf("key%02d", (i*7)%18), &Val{T: "int", I: int64(i)}})
	}
	return m
}

// nastyMap is a map whose keys and values come from nastyStrings.
func nastyMap(r *R) *Val {
	m := &Val{T: "map"}
	seen := map[string]bool{}
	for i := 0; i < 5; i++ {
		k := pick(r, nastyStrings)
		if !seen[k] && len(k) < 50 {
			seen[k] = true
			m.M = append(m.M, KV{k, &Val{T: "str", S: pick(r, nastyStrings[:20])}})
		}
	}
	return m
}

// genProgram builds a template set: main + optional partials/base/lib.
func genProgram(r *R, f Feat) *Program {
	g := &gen{r: r, f: f}
	p := &Program{Ctx: defaultCtx(r)}
	dir := ""
	if f.RelPaths {
		dir = pick(r, []string{"a/", "b/", "a/sub/"})
		g.dir = dir
	}
	mk := func(name string, nseg, d int) Tmpl {
		t := Tmpl{Name: name}
		for i := 0; i < nseg; i++ {
			t.Segs = append(t.Segs, g.seg(d))
		}
		return t
	}
	if f.Macros {
		lib := libSrc
		if f.Spies && f.SpyPct > 0 {
			lib = libSrcSpy
		}
		p.Templates = append(p.Templates, Tmpl{Name: "lib", Segs: []string{lib}})
		g.names = append(g.names, "lib")
	}
	if f.Include {
		n := r.Range(1, 2)
		for i := 0; i < n; i++ {
			name := fmt.Sprintf("%spart%d", dir, i)
			p.Templates = append(p.Templates, Tmpl{Name: name, Segs: strings.Split(g.at("included", func() string { return strings.Join(mk(name, r.Range(1, 3), 1).Segs, "\x01") }), "\x01")})
			g.names = append(g.names, name)
		}
	}
	// names usable for include must not contain "lib" (macro-only template renders nothing, fine)
	main := Tmpl{Name: dir + "main"}
	if f.Inherit && r.P(50) {
		base := Tmpl{Name: dir + "base"}
		nb := r.Range(1, 3)
		base.Segs = append(base.Segs, g.text())
		for i := 0; i < nb; i++ {
			base.Segs = append(base.Segs, g.open(fmt.Sprintf("block b%d", i))+g.at("parent-block", func() string { return g.body(1) })+g.open("endblock"), g.text())
		}
		p.Templates = append(p.Templates, base)
		ref := base.Name
		deep := false
		if r.P(35) {
			deep = true
			// a middle level: main extends mid extends base
			mid := Tmpl{Name: dir + "mid"}
			mid.Segs = append(mid.Segs, g.open("extends '"+g.ref(base.Name)+"'"))
			for i := 0; i < nb; i++ {
				if true { // every block: a level that skips a block makes parent() in the child fail in this engine
					b := g.at("mid-block", func() string { return g.body(1) })
					mid.Segs = append(mid.Segs, g.open(fmt.Sprintf("block b%d", i))+b+g.open("endblock"))
				}
			}
			p.Templates = append(p.Templates, mid)
			ref = mid.Name
		}
		main.Segs = append(main.Segs, g.open("extends '"+g.ref(ref)+"'"))
		if r.P(30) {
			// statements of an extending child that stand outside its blocks (this engine does not run them; whatever
			// an engine does with them, a failure there is not to be swallowed)
			main.Segs = append(main.Segs, g.open("set topv = "+g.at("child-top-set", func() string { return g.wrapSpy(g.scalar(1)) })))
		}
		for i := 0; i < nb; i++ {
			if r.P(70) {
				b := g.at("child-block", func() string { return g.body(2) })
				if r.P(40) && !deep { // parent() through two levels fails in this engine (C10's subject)
					b += g.print("parent()")
				}
				main.Segs = append(main.Segs, g.open(fmt.Sprintf("block b%d", i))+b+g.open("endblock"))
			}
		}
	} else {
		n := r.Range(2, 6)
		for i := 0; i < n; i++ {
			main.Segs = append(main.Segs, g.seg(2))
		}
	}
	if f.ErrorsPct > 0 && r.P(f.ErrorsPct) {
		at := r.N(len(main.Segs) + 1)
		partAt := -1
		for i := range p.Templates {
			if strings.Contains(p.Templates[i].Name, "part") {
				partAt = i
			}
		}
		if partAt >= 0 && r.P(35) {
			// the failure sits in an included template (if main happens to include it)
			p.Templates[partAt].Segs = append(p.Templates[partAt].Segs, g.failing())
		} else if len(main.Segs) > 0 && strings.Contains(main.Segs[0], "extends") {
			// inside a block so that it is rendered
			main.Segs = append(main.Segs, g.open("block b0")+g.failing()+g.open("endblock"))
		} else {
			main.Segs = append(main.Segs[:at], append([]string{g.failing()}, main.Segs[at:]...)...)
		}
	}
	p.Templates = append(p.Templates, main)
	p.Main = main.Name
	return p
}

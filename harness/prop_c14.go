package main

import (
	"bytes"
	"encoding/json"
	"fmt"
	"io"
	"sort"
	"strings"

	"github.com/semihalev/twig"
	"simrt"
)

// C14 — template length / size thresholds do not change how a template is read.

type c14Sc struct {
	Prog    *Program         `json:"prog"`
	Knobs   []map[string]int `json:"knob_vectors"`
	PadLens []int            `json:"pad_lens"` // real padding lengths for the fidelity leg (empty = none)
	PadKind string           `json:"pad_kind"` // text | comment
	// AlignAt: additionally pad before one top-level segment so that the segment starts at these absolute
	// offsets (values around powers of two and other round numbers: window / size-class edges)
	AlignAt   []int    `json:"align_at,omitempty"`
	AlignSeg  int      `json:"align_seg,omitempty"`
	ViaFS     bool     `json:"via_fs,omitempty"`       // templates come from a FileSystemLoader on the simulated disk instead of RegisterString
	InnerSeed uint64   `json:"inner_seed,omitempty"`   // != 0: inner-insertion leg, points chosen by this seed
	Size      *c14Size `json:"size,omitempty"`         // structure-size leg (see prop_c14_size.go)
	ViaComp   bool     `json:"via_compiled,omitempty"` // templates are compiled and serialised on one engine and reach the rendering engine as bytes
}

type propC14 struct{}

func init() { register(propC14{}) }

func (propC14) ID() string    { return "C14" }
func (propC14) Race() bool    { return false }
func (propC14) Level() string { return "exploration" }
func (propC14) Rule() string {
	return "one run = one case (template set + context, generator biased towards delimiters: dashes on every side of every tag kind, comments containing braces, verbatim, tag-like text inside string literals, multi-byte text adjacent to tags, tags at offset 0 and at EOF) rendered under the shipped size constants and under 5-7 other knob vectors (tokenizer choice threshold 0/1/64/4096/inf, token-buffer minimum capacity and capacity divisor, token-slice pooling bounds); observations (output bytes or error class) must be identical. Seam-fidelity leg on a third of the runs: the main template is really padded with literal text or comments at top-level segment boundaries to total lengths straddling 64 B … 300 KiB (across the real 4096-byte tokenizer switch and the buffer size classes) and must render as the unpadded template plus exactly that text. distinct = distinct event-log hash; non-trivial = at least one knob override actually fired or a really padded render crossed 4096 bytes"
}
func (propC14) Assumptions() []string {
	return []string{
		"the curated constants (Parser.Parse 4096; GetTokenizer 32 and /10; GetTokenSlice/ReleaseTokenSlice 1000 and 32) are tuning constants with no documented semantic meaning",
		"the quantifier over arbitrary insertion points is only sampled by the fidelity leg (top-level segment boundaries of the main template); the knob legs decide the 'in particular' clause",
	}
}
func (propC14) MainFaults() []string { return []string{"padded_renders", "knob_vectors_compared"} }

func (propC14) Decode(raw []byte) (interface{}, error) {
	var sc c14Sc
	err := json.Unmarshal(raw, &sc)
	return &sc, err
}

func (propC14) Gen(seed uint64, ex map[string]bool) interface{} {
	r := newR(seed)
	f := Feat{MapLoops: true, Include: r.P(50), Inherit: r.P(30), Macros: r.P(40), Dashes: true, BlockDashes: r.P(5), RelPaths: r.P(20)}
	p := genProgram(r, f)
	// delimiter-heavy extra segments in the main template
	extras := []string{
		"{{ \"}\" ~ '}' }}", "{{ \"%}\" ~ '{{' }}", "{% set q = '%' ~ '}' %}{{ q }}", "{# {{ }} {% %} #}", "{#- c -#}", "é{{ s1 }}日", "{{s1}}{{n1}}",
		"{%- if b1 %} x {% endif -%}", "{% if b1 -%} x {% endif %}", "  {{- s1 -}}  ", "{% verbatim %}{{ v }}{% endverbatim %}", "{ { } } % %", "{{ s1 }}\n\n{{- n1 }}", "\\{{ s1 }}", "{{ '\\'' }}",
		"{{ {'a': '}'}|json_encode }}", "{%if b1%}y{%endif%}",
		"{% for x9 in sl %}{{ x9 }}{% endfor %}[{{ x9 }}{{ loop.index }}]", "{% for k9, v9 in m2 %}{{ v9 }}{% endfor %}[{{ k9 }}]", "{% if b1 %}{{ s1 }}{% endif %}", "{% for x9 in il %}.{% endfor %}", "{{\ns1\n}}", "{{ s1|default('{%') }}",
	}
	for ti := range p.Templates {
		if p.Templates[ti].Name != p.Main {
			continue
		}
		t := &p.Templates[ti]
		if len(t.Segs) > 0 && strings.Contains(t.Segs[0], "extends") {
			continue
		}
		n := r.Range(1, 4)
		for i := 0; i < n; i++ {
			at := r.N(len(t.Segs) + 1)
			x := pick(r, extras)
			if r.P(2) {
				// spellings this engine rejects whatever the length (the outcome class is compared across knob
				// vectors too, but a template that does not parse cannot be padded): kept rare
				x = pick(r, []string{"{{ '}}' }}", "{% set q = '%}' %}{{ q }}", "{%- if b1 -%} x {%- endif -%}"})
			}
			t.Segs = append(t.Segs[:at], append([]string{x}, t.Segs[at:]...)...)
		}
	}
	sc := &c14Sc{Prog: p, ViaFS: r.P(25)}
	sc.ViaComp = !sc.ViaFS && r.P(20)
	inf := 1 << 30
	vec := func(m map[string]int) { sc.Knobs = append(sc.Knobs, m) }
	vec(map[string]int{}) // shipped
	vec(map[string]int{"parser.optimized_threshold": 0})
	vec(map[string]int{"parser.optimized_threshold": inf})
	vec(map[string]int{"parser.optimized_threshold": pick(r, []int{1, 16, 64, 200})})
	vec(map[string]int{"tokenizer.min_capacity": 1, "tokenizer.capacity_divisor": 1000})
	vec(map[string]int{"tokenizer.min_capacity": 1, "tokenizer.capacity_divisor": 1, "parser.optimized_threshold": 0})
	vec(map[string]int{"tokenslice.pool_min_cap": 1, "tokenslice.pool_max_cap": inf, "tokenslice.direct_alloc_threshold": 1})
	vec(map[string]int{"tokenslice.pool_min_cap": 1, "tokenslice.pool_max_cap": inf, "parser.optimized_threshold": 0, "tokenizer.min_capacity": 2})
	if !ex["tier:thorough"] {
		// quick tier: the shipped constants and a random four of the seven other vectors per run (more runs per second;
		// every vector is still used by four sevenths of the runs)
		keep := sc.Knobs[:1]
		rest := append([]map[string]int{}, sc.Knobs[1:]...)
		for i := len(rest) - 1; i > 0; i-- {
			j := r.N(i + 1)
			rest[i], rest[j] = rest[j], rest[i]
		}
		sc.Knobs = append(keep, rest[:4]...)
	}
	if r.P(45) {
		sc.InnerSeed = uint64(r.N(1<<30)) + 1
	}
	if r.P(40) {
		z := &c14Size{Family: r.N(c14SizeFamilies), Var: r.N(7)}
		z.Ns = append(z.Ns, pick(r, []int{0, 1, 2}))
		k := r.Range(2, 5)
		for i := 0; i < k; i++ {
			z.Ns = append(z.Ns, pick(r, c14SizeNs[3:]))
		}
		switch z.Family {
		case 17: // output length / range size
			z.Ns = append(z.Ns, pick(r, []int{4095, 4096, 9999, 10000, 10001, 20000, 65536}))
		case 5, 1, 14: // literal sizes
			z.Ns = append(z.Ns, pick(r, []int{4096, 5000, 10001, 33000}))
		}
		sc.Size = z
	}
	if r.P(40) && !ex["real-padding"] {
		sc.PadKind = pick(r, []string{"text", "comment", "text", "lines", "manycomments", "constructs", "nesting"})
		all := []int{60, 250, 1000, 4090, 4097, 5000, 21000, 70000, 110000, 300000}
		n := r.Range(1, 3)
		for i := 0; i < n; i++ {
			sc.PadLens = append(sc.PadLens, pick(r, all)-r.N(8))
		}
		sort.Ints(sc.PadLens)
		if r.P(70) {
			n := r.Range(1, 3)
			for i := 0; i < n; i++ {
				var b int
				switch r.N(4) {
				case 0, 1:
					b = 1 << uint(r.Range(6, 18))
				case 2:
					b = pick(r, []int{1000, 10000, 100000, 4096 * 3, 4096 * 5, 65536 + 32768, 20 * 1024, 100 * 1024})
				default:
					b = (1 << uint(r.Range(10, 17))) * r.Range(2, 3)
				}
				sc.AlignAt = append(sc.AlignAt, b-r.N(4)+1) // b-2 … b+1
			}
			sc.AlignSeg = r.N(8)
		}
	}
	return sc
}

var c14ViaFS bool   // set per run from the scenario (single task, no concurrency)
var c14ViaComp bool // likewise

func c14Render(p *Program, knobs map[string]int, mainSrc string) (res Obs, wr *simrt.World) {
	w := simrt.Begin(simrt.Config{Seed: 14, PoolPolicy: simrt.PoolLIFO, MapOrder: simrt.OrderSorted, ClockStart: 1_700_000_000e9, ClockStep: 1e6, Knobs: knobs, PreemptDen: 4})
	defer simrt.End()
	w.EnterMain()
	defer func() {
		r := recover()
		if r != nil && !simrtAbort(r) {
			w.LeaveMain()
			panic(r)
		}
		if ab := w.LeaveMain(); ab != "" {
			res, wr = Obs{Class: "aborted", Err: ab}, w // a scheduler round among goroutines the library started did not end
		}
	}()
	if c14ViaFS {
		w.UseSimFS()
		twig.SetDebugWriter(io.Discard)
		saved := twig.VerifSwapGlobals(nil)
		defer twig.VerifSwapGlobals(saved)
		e := twig.New()
		installSandbox(e)
		installGlobals(e)
		for _, t := range p.Templates {
			src := t.Src()
			if t.Name == p.Main && mainSrc != "" {
				src = mainSrc
			}
			w.FSWrite("tpl/"+t.Name+".twig", []byte(src), w.NowNS())
		}
		e.RegisterLoader(twig.NewFileSystemLoader([]string{"tpl"}))
		observe(nil, func() (string, error) { return e.Render(p.Main, BuildCtx(p.Ctx, 0)) })
		return observe(nil, func() (string, error) { return e.Render(p.Main, BuildCtx(p.Ctx, 0)) }), w
	}
	twig.SetDebugWriter(io.Discard)
	saved := twig.VerifSwapGlobals(nil)
	defer twig.VerifSwapGlobals(saved)
	e := twig.New()
	installSandbox(e)
	installGlobals(e)
	regErr := ""
	for _, t := range p.Templates {
		src := t.Src()
		if t.Name == p.Main && mainSrc != "" {
			src = mainSrc
		}
		if c14ViaComp {
			// the stored form of a template is one more reader of its source: compile and serialise on a
			// scratch engine, hand the bytes to the rendering engine
			e0 := twig.New()
			err := e0.RegisterString(t.Name, src)
			if err == nil {
				var ct *twig.CompiledTemplate
				if ct, err = e0.CompileTemplate(t.Name); err == nil {
					var data []byte
					if data, err = twig.SerializeCompiledTemplate(ct); err == nil {
						err = e.LoadFromCompiledData(data)
					}
				}
			}
			if err != nil && t.Name == p.Main {
				regErr = err.Error()
			}
			continue
		}
		if err := e.RegisterString(t.Name, src); err != nil && t.Name == p.Main {
			regErr = err.Error()
		}
	}
	if regErr != "" {
		return Obs{Class: "error", Err: regErr}, w
	}
	// twice: the second render runs on recycled buffers
	observe(nil, func() (string, error) { return e.Render(p.Main, BuildCtx(p.Ctx, 0)) })
	return observe(nil, func() (string, error) { return e.Render(p.Main, BuildCtx(p.Ctx, 0)) }), w
}

type plainWriter struct{ b []byte }

func (p *plainWriter) Write(x []byte) (int, error) { p.b = append(p.b, x...); return len(x), nil }

func c14RenderTo(p *Program, flavour string) (res Obs, wr *simrt.World) {
	w := simrt.Begin(simrt.Config{Seed: 14, PoolPolicy: simrt.PoolLIFO, MapOrder: simrt.OrderSorted, ClockStart: 1_700_000_000e9, ClockStep: 1e6, PreemptDen: 4})
	defer simrt.End()
	w.EnterMain()
	defer func() {
		r := recover()
		if r != nil && !simrtAbort(r) {
			w.LeaveMain()
			panic(r)
		}
		if ab := w.LeaveMain(); ab != "" {
			res, wr = Obs{Class: "aborted", Err: ab}, w // a scheduler round among goroutines the library started did not end
		}
	}()
	twig.SetDebugWriter(io.Discard)
	saved := twig.VerifSwapGlobals(nil)
	defer twig.VerifSwapGlobals(saved)
	e := twig.New()
	installSandbox(e)
	installGlobals(e)
	for _, t := range p.Templates {
		e.RegisterString(t.Name, t.Src())
	}
	run := func() (string, error) {
		if flavour == "plain" {
			var pw plainWriter
			err := e.RenderTo(&pw, p.Main, BuildCtx(p.Ctx, 0))
			if err != nil {
				return "", err
			}
			return string(pw.b), nil
		}
		var bb bytes.Buffer
		err := e.RenderTo(&bb, p.Main, BuildCtx(p.Ctx, 0))
		if err != nil {
			return "", err
		}
		return bb.String(), nil
	}
	observe(nil, run)
	return observe(nil, run), w
}

func (propC14) Run(scI interface{}) *Outcome {
	sc := scI.(*c14Sc)
	c14ViaFS, c14ViaComp = sc.ViaFS, sc.ViaComp
	defer func() { c14ViaFS, c14ViaComp = false, false }()
	o := &Outcome{Probes: map[string]int64{}}
	fp := uint64(0xcbf29ce484222325)
	var base Obs
	mainSrc := sc.Prog.Sources()[sc.Prog.Main]
	for i, kv := range sc.Knobs {
		got, w := c14Render(sc.Prog, kv, "")
		for j := range o.Stats {
			o.Stats[j] += w.Stat[j]
		}
		o.SimNS += w.NowNS() - 1_700_000_000e9
		fp = simrt.Mix(fp, w.Fingerprint(), strHash(got.Key()))
		if i == 0 {
			base = got
			o.Probes["class_"+got.Class]++
			continue
		}
		o.Probes["knob_vectors_compared"]++
		if got.Key() != base.Key() {
			o.FP = fp
			ks := make([]string, 0, len(kv))
			for k := range kv {
				ks = append(ks, k)
			}
			sort.Strings(ks)
			o.Viol = &Violation{Oracle: "all-knob-vectors-equal", Sig: "result depends on size constants " + strings.Join(ks, "+") + fmt.Sprintf(" (%s vs %s)", base.Class, got.Class),
				Detail: fmt.Sprintf("main template %q\n shipped constants: %s\n with %v: %s", mainSrc, base, kv, got)}
			return o
		}
	}
	// writer flavours: Render, RenderTo into a bytes.Buffer (has WriteString) and RenderTo into a plain io.Writer
	// (pooled-buffer fallback) must produce the same bytes, also for long outputs
	if base.Class == "ok" {
		for _, flavour := range []string{"buffer", "plain"} {
			got, w := c14RenderTo(sc.Prog, flavour)
			o.Probes["writer_flavours_compared"]++
			fp = simrt.Mix(fp, w.Fingerprint(), strHash(got.Key()))
			if got.Key() != base.Key() {
				o.FP = fp
				o.Viol = &Violation{Oracle: "writer-flavours-equal", Sig: "RenderTo(" + flavour + " writer) differs from Render (" + got.Class + ")",
					Detail: fmt.Sprintf("main template %q\n Render:   %s\n RenderTo: %s", tail(mainSrc, 400), tail(base.Out, 300), tail(got.Out, 300)+" "+got.Err)}
				return o
			}
		}
	}
	if sc.InnerSeed != 0 {
		if v := c14InnerLeg(sc, base, mainSrc, o, &fp); v != nil {
			o.FP = fp
			o.Viol = v
			return o
		}
	}
	if sc.Size != nil {
		if v := c14SizeLeg(sc, o, &fp); v != nil {
			o.FP = fp
			o.Viol = v
			return o
		}
	}
	// seam-fidelity leg: real padding
	if len(sc.PadLens) > 0 && base.Class == "ok" {
		var main *Tmpl
		for i := range sc.Prog.Templates {
			if sc.Prog.Templates[i].Name == sc.Prog.Main {
				main = &sc.Prog.Templates[i]
			}
		}
		ext := len(main.Segs) > 0 && strings.Contains(main.Segs[0], "extends")
		if !ext {
			const sentinel = "\x02"
			build := func(pad string) string {
				var sb strings.Builder
				for _, s := range main.Segs {
					sb.WriteString(pad)
					sb.WriteString(s)
				}
				sb.WriteString(pad)
				return sb.String()
			}
			// the reference has a one-character pad of the same kind at the same places, so that only
			// the *length* of the inserted material differs between reference and padded template
			shortPad := sentinel
			if sc.PadKind == "comment" || sc.PadKind == "manycomments" {
				shortPad = "{#c#}"
			}
			const neutral = "{% if false %}x{% endif %}{% for zq9 in [] %}y{% endfor %}"
			if sc.PadKind == "constructs" {
				shortPad = neutral
			}
			if sc.PadKind == "nesting" {
				// not a boundary pad: the whole body sits inside D neutral levels (if true / one-element for,
				// alternating, innermost always the for); reference D = 2
				body := strings.Join(main.Segs, "")
				for _, bad := range []string{"{% macro", "{%- macro", "{% block", "{%- block", "{% import", "{%- import", "{% from", "{%- from", "{% extends", "{%- extends"} {
					if strings.Contains(body, bad) {
						body = ""
					}
				}
				nest := func(d int) string {
					var open, cl strings.Builder
					for i := 0; i < d; i++ {
						if i%2 == 0 {
							open.WriteString("{% if true %}")
						} else {
							open.WriteString("{% for zq9 in [1] %}")
						}
					}
					for i := d - 1; i >= 0; i-- {
						if i%2 == 0 {
							cl.WriteString("{% endif %}")
						} else {
							cl.WriteString("{% endfor %}")
						}
					}
					return open.String() + body + cl.String()
				}
				if body != "" {
					ref, _ := c14Render(sc.Prog, nil, nest(2))
					for _, n := range sc.PadLens {
						d := 2 * (8 + n%60) // 16 … 134 levels
						if ref.Class != "ok" {
							break
						}
						got, w := c14Render(sc.Prog, nil, nest(d))
						o.Probes["padded_renders"]++
						o.Probes["nested_renders"]++
						fp = simrt.Mix(fp, w.Fingerprint(), strHash(got.Key()))
						if got.Key() != ref.Key() {
							o.FP = fp
							o.Viol = &Violation{Oracle: "padding-changes-only-padding", Sig: fmt.Sprintf("wrapping the body in more neutral levels changed the result (%s)", got.Class),
								Detail: fmt.Sprintf("main template %q inside %d alternating if/for levels instead of 2\n expected: %s\n got:      %s err=%s", mainSrc, d, tail(ref.Out, 400), tail(got.Out, 400), got.Err)}
							return o
						}
					}
				}
				shortPad = sentinel
			}
			ref, _ := c14Render(sc.Prog, nil, build(shortPad))
			if ref.Class == "ok" && sc.PadKind != "nesting" {
				padLens := sc.PadLens
				if sc.PadKind == "comment" {
					padLens = append([]int{-1}, padLens...) // -1: the zero-length comment {##} (length 0 is a length too)
				}
				for _, n := range padLens {
					per := n / (len(main.Segs) + 1)
					if per < 1 {
						per = 1
					}
					if n == -1 {
						per = 0
						o.Probes["zero_length_comment_pads"]++
					}
					var pad, want string
					switch sc.PadKind {
					case "text":
						pad = strings.Repeat("p", per)
						want = strings.ReplaceAll(ref.Out, sentinel, pad)
					case "lines": // many short lines: the template's line count grows with the padding
						pad = strings.Repeat("l\n", per/2+1) + "l" // no whitespace at either end: a neighbouring dash must not eat it
						want = strings.ReplaceAll(ref.Out, sentinel, pad)
					case "manycomments": // many tokens
						pad = strings.Repeat("{#c#}", per/5+1)
						want = ref.Out
					case "constructs": // many block bodies that render nothing
						pad = strings.Repeat(neutral, per/len(neutral)+1)
						want = ref.Out
					default:
						pad = "{#" + strings.Repeat("c", per) + "#}"
						want = ref.Out
					}
					src := build(pad)
					got, w := c14Render(sc.Prog, nil, src)
					o.Probes["padded_renders"]++
					if len(src) > 4096 {
						o.Probes["padded_over_4096"]++
						o.Nontrivial = true
					}
					fp = simrt.Mix(fp, w.Fingerprint(), strHash(got.Key()))
					if got.Class != "ok" || got.Out != want {
						o.FP = fp
						o.Viol = &Violation{Oracle: "padding-changes-only-padding", Sig: fmt.Sprintf("inserting %s padding changed the result (%s)", sc.PadKind, got.Class),
							Detail: fmt.Sprintf("main template %q padded with %d bytes of %s per boundary to total length %d\n expected: %s\n got:      %s err=%s", mainSrc, per, sc.PadKind, len(src), tail(want, 400), tail(got.Out, 400), got.Err)}
						return o
					}
				}
			}
		}
	}
	// alignment leg: one insertion point, tag start placed at offsets around round boundaries
	if len(sc.AlignAt) > 0 && base.Class == "ok" {
		var main *Tmpl
		for i := range sc.Prog.Templates {
			if sc.Prog.Templates[i].Name == sc.Prog.Main {
				main = &sc.Prog.Templates[i]
			}
		}
		if len(main.Segs) > 0 && !strings.Contains(main.Segs[0], "extends") {
			at := sc.AlignSeg % len(main.Segs)
			prefix := strings.Join(main.Segs[:at], "")
			rest := strings.Join(main.Segs[at:], "")
			const sentinel = "\x02"
			ref, _ := c14Render(sc.Prog, nil, prefix+sentinel+rest)
			if ref.Class == "ok" {
				for _, off := range sc.AlignAt {
					n := off - len(prefix)
					if n < 1 {
						continue
					}
					pad := strings.Repeat("q", n)
					got, w := c14Render(sc.Prog, nil, prefix+pad+rest)
					o.Probes["aligned_renders"]++
					o.Nontrivial = true
					fp = simrt.Mix(fp, w.Fingerprint(), strHash(got.Key()))
					want := strings.ReplaceAll(ref.Out, sentinel, pad)
					if got.Class != "ok" || got.Out != want {
						o.FP = fp
						o.Viol = &Violation{Oracle: "padding-changes-only-padding", Sig: fmt.Sprintf("a construct starting at a particular offset is read differently (%s)", got.Class),
							Detail: fmt.Sprintf("main template %q: %d bytes of text inserted before segment %d so that it starts at offset %d\n expected tail: %s\n got tail:      %s err=%s", mainSrc, n, at, off, lastN(want, 200), lastN(got.Out, 200), got.Err)}
						return o
					}
				}
			}
		}
	}
	if len(sc.PadLens) == 0 {
		o.Probes["padded_renders"] += 0
	}
	o.FP = fp
	if o.Stats[simrt.StKnobOverride] > 0 {
		o.Nontrivial = true
	}
	o.Sample = map[string]interface{}{"main": tail(mainSrc, 300), "knob_vectors": sc.Knobs, "pad_lens": sc.PadLens, "pad_kind": sc.PadKind, "result": base.Class}
	return o
}

func lastN(s string, n int) string {
	if len(s) > n {
		return "…" + s[len(s)-n:]
	}
	return s
}

func (propC14) Shrink(scI interface{}) []interface{} {
	sc := scI.(*c14Sc)
	var out []interface{}
	clone := func() *c14Sc {
		b, _ := json.Marshal(sc)
		var c c14Sc
		json.Unmarshal(b, &c)
		return &c
	}
	if len(sc.Knobs) > 2 {
		for i := 1; i < len(sc.Knobs); i++ {
			c := clone()
			c.Knobs = []map[string]int{sc.Knobs[0], sc.Knobs[i]}
			out = append(out, c)
		}
	}
	if len(sc.PadLens) > 1 {
		for i := range sc.PadLens {
			c := clone()
			c.PadLens = []int{sc.PadLens[i]}
			out = append(out, c)
		}
	}
	if len(sc.PadLens) > 0 {
		c := clone()
		c.PadLens = nil
		out = append(out, c)
	}
	if len(sc.AlignAt) > 1 {
		for i := range sc.AlignAt {
			c := clone()
			c.AlignAt = []int{sc.AlignAt[i]}
			out = append(out, c)
		}
	}
	if len(sc.AlignAt) > 0 {
		c := clone()
		c.AlignAt = nil
		out = append(out, c)
	}
	for ti, t := range sc.Prog.Templates {
		for si := range t.Segs {
			c := clone()
			s := c.Prog.Templates[ti].Segs
			c.Prog.Templates[ti].Segs = append(s[:si], s[si+1:]...)
			out = append(out, c)
		}
	}
	for ti, t := range sc.Prog.Templates {
		if t.Name != sc.Prog.Main {
			c := clone()
			c.Prog.Templates = append(c.Prog.Templates[:ti], c.Prog.Templates[ti+1:]...)
			out = append(out, c)
		}
	}
	for ki := range sc.Prog.Ctx.M {
		c := clone()
		m := c.Prog.Ctx.M
		c.Prog.Ctx.M = append(m[:ki], m[ki+1:]...)
		out = append(out, c)
	}
	return out
}

package main

import "simrt"

// R is the generator-side PRNG (scenario generation); the world has its own stream.
type R struct{ s uint64 }

func newR(seed uint64) *R { return &R{s: simrt.Mix(seed, 0x67656e)} }

func (r *R) U() uint64 {
	r.s += 0x9e3779b97f4a7c15
	z := r.s
	z = (z ^ (z >> 30)) * 0xbf58476d1ce4e5b9
	z = (z ^ (z >> 27)) * 0x94d049bb133111eb
	return z ^ (z >> 31)
}

// N returns an int in [0,n).
func (r *R) N(n int) int {
	if n <= 1 {
		return 0
	}
	return int(r.U() % uint64(n))
}

// P is true with probability pct/100.
func (r *R) P(pct int) bool { return r.N(100) < pct }

// Range returns an int in [lo,hi].
func (r *R) Range(lo, hi int) int { return lo + r.N(hi-lo+1) }

func pick[T any](r *R, xs []T) T { return xs[r.N(len(xs))] }

// strHash is FNV-1a over a string (observations enter run fingerprints through it, so the
// cross-process determinism self-test also compares rendered bytes between processes).
func strHash(s string) uint64 {
	h := uint64(0xcbf29ce484222325)
	for i := 0; i < len(s); i++ {
		h ^= uint64(s[i])
		h *= 0x100000001b3
	}
	return h
}

package main

import (
	"bufio"
	"encoding/json"
	"flag"
	"fmt"
	"os"
	"os/exec"
	"path/filepath"
	"runtime"
	"sort"
	"strconv"
	"strings"
	"sync"
	"sync/atomic"
	"time"

	"simrt"
)

// Violation describes a property violation found in one simulated run.
type Violation struct {
	Oracle string `json:"oracle"`
	Sig    string `json:"sig"` // stable signature (no line numbers, no addresses)
	Detail string `json:"detail"`
}

// Outcome is the result of one simulated run.
type Outcome struct {
	Viol       *Violation
	FP         uint64
	Inter      uint64 // interleaving fingerprint (0 if single task)
	Nontrivial bool
	Stats      [simrt.NStat]int64
	SimNS      int64
	Probes     map[string]int64
	Poisoned   bool
	Sample     interface{}
	Taken      []simrt.SchedEntry // scheduling decisions actually taken (concurrent worlds)
}

// Scheduled is implemented by properties whose scenarios can carry an explicit schedule.
type Scheduled interface {
	WithSchedule(sc interface{}, sched []simrt.SchedEntry) interface{}
	ScheduleOf(sc interface{}) ([]simrt.SchedEntry, bool)
}

// Prop is one property's world + oracle.
type Prop interface {
	ID() string
	Race() bool
	Level() string
	Rule() string
	Assumptions() []string
	Gen(seed uint64, exclude map[string]bool) interface{}
	Decode(raw []byte) (interface{}, error)
	Run(sc interface{}) *Outcome
	Shrink(sc interface{}) []interface{}
	MainFaults() []string // probe/stat names of which at least one must have fired in a batch
}

var props = map[string]Prop{}

var extraCmds = map[string]func([]string){}

func register(p Prop) { props[p.ID()] = p }

// Replay is the on-disk form of a scenario.
type Replay struct {
	Property string          `json:"property"`
	Seed     uint64          `json:"seed"`
	RunIndex int             `json:"run_index"`
	Code     string          `json:"code_fingerprint"`
	Expect   *Violation      `json:"expected_violation,omitempty"`
	FP       string          `json:"event_log_hash,omitempty"`
	Scenario json.RawMessage `json:"scenario"`
	// Sequence, if set, replaces Scenario: the run indices to generate and execute one after the other
	// in ONE process (the last one is where the violation shows). Used when a violation depends on
	// process-wide state left behind by earlier runs, so that a single scenario does not reproduce it.
	Sequence []int  `json:"sequence,omitempty"`
	Exclude  string `json:"exclude,omitempty"`
}

func runSeed(seed uint64, prop string, idx int) uint64 {
	h := uint64(0)
	for _, c := range prop {
		h = h*131 + uint64(c)
	}
	return simrt.Mix(seed, h, uint64(idx))
}

type workerLine struct {
	I        int               `json:"i,omitempty"`
	Viol     *Violation        `json:"viol,omitempty"`
	Scenario json.RawMessage   `json:"scenario,omitempty"`
	Seed     uint64            `json:"seed,omitempty"`
	FPs      []string          `json:"fps,omitempty"`
	Inters   []string          `json:"inters,omitempty"`
	Runs     int               `json:"runs,omitempty"`
	Stats    []int64           `json:"stats,omitempty"`
	Probes   map[string]int64  `json:"probes,omitempty"`
	SimNS    int64             `json:"sim_ns,omitempty"`
	Samples  []interface{}     `json:"samples,omitempty"`
	Poisoned bool              `json:"poisoned,omitempty"`
	Det      map[string]string `json:"det,omitempty"`
	Done     bool              `json:"done,omitempty"`
	Err      string            `json:"err,omitempty"`
}

func main() {
	if len(os.Args) < 2 {
		fmt.Fprintln(os.Stderr, "usage: simcheck drive|work|replay|gen ...")
		os.Exit(2)
	}
	switch os.Args[1] {
	case "work":
		cmdWork(os.Args[2:])
	case "drive":
		cmdDrive(os.Args[2:])
	case "replay":
		cmdReplay(os.Args[2:])
	case "gen":
		cmdGen(os.Args[2:])
	default:
		if f, ok := extraCmds[os.Args[1]]; ok {
			f(os.Args[2:])
			return
		}
		fmt.Fprintln(os.Stderr, "unknown subcommand", os.Args[1])
		os.Exit(2)
	}
}

func parseExclude(s string) map[string]bool {
	m := map[string]bool{}
	for _, x := range strings.Split(s, ",") {
		if x != "" {
			m[x] = true
		}
	}
	return m
}

// raceLogSize returns the total size of the race detector's log files for this process.
func raceLogSize() int64 {
	p := os.Getenv("VERIF_RACE_LOG")
	if p == "" {
		return 0
	}
	fi, err := os.Stat(p + "." + strconv.Itoa(os.Getpid()))
	if err != nil {
		return 0
	}
	return fi.Size()
}

func readRaceLog(from int64) string {
	p := os.Getenv("VERIF_RACE_LOG")
	b, err := os.ReadFile(p + "." + strconv.Itoa(os.Getpid()))
	if err != nil || int64(len(b)) <= from {
		return ""
	}
	return string(b[from:])
}

// raceSignature extracts, from one race report, the owner frame of both stacks: the first frame
// (from the top) that belongs to twig, to the simulator or to the harness. A report counts against
// twig iff some stack is owned by twig and none by the simulator; a stack owned by the simulator is
// a harness artefact (reported as trouble, exit 2, never as a violation and never ignored).
func raceSignature(rep string) (sig string, inTwig bool) {
	var heads []string
	simrtOwned := false
	lines := strings.Split(rep, "\n")
	for i := 0; i < len(lines); i++ {
		l := lines[i]
		if strings.HasPrefix(l, "Write at ") || strings.HasPrefix(l, "Read at ") ||
			strings.HasPrefix(l, "Previous write at ") || strings.HasPrefix(l, "Previous read at ") {
			kind := "R"
			if strings.Contains(l, "rite at") {
				kind = "W"
			}
			fn := "?"
			for j := i + 1; j < len(lines) && strings.TrimSpace(lines[j]) != ""; j += 2 {
				f := trimArgs(strings.TrimSpace(lines[j]))
				if strings.HasPrefix(f, "github.com/semihalev/twig.") {
					fn = strings.TrimPrefix(f, "github.com/semihalev/twig.")
					if strings.HasPrefix(fn, "Verif") {
						fn = "harness:" + fn
					} else {
						inTwig = true
					}
					break
				}
				if strings.HasPrefix(f, "simrt.") && simrtActsForCaller(f) {
					// a map-iteration seam reads the PROGRAM's map on behalf of the range statement it
					// replaced: the access belongs to the caller's frame
					continue
				}
				if strings.HasPrefix(f, "simrt.") {
					fn = "simulator:" + f
					simrtOwned = true
					break
				}
				if strings.HasPrefix(f, "main.") {
					fn = "harness:" + f
					break
				}
			}
			heads = append(heads, kind+":"+fn)
		}
	}
	sort.Strings(heads)
	sig = strings.Join(heads, " | ")
	if simrtOwned {
		fmt.Fprintf(os.Stderr, "HARNESS-RACE (simulator-owned stack, not a violation): %s\n%s\n", sig, tail(rep, 2500))
		harnessRace = true
		return sig, false
	}
	return sig, inTwig
}

var harnessRace bool

// simrtActsForCaller: seam functions whose only memory accesses visible to the race detector are to
// the caller's own data (the simulator's state is touched from //go:norace code only).
func simrtActsForCaller(f string) bool {
	for _, p := range []string{"simrt.Keys[", "simrt.MapKeys", "simrt.MapRange", "simrt.(*MapIter)", "simrt.MapsKeys", "simrt.MapsValues", "simrt.MapsAll", "simrt.SyncMapRange", "simrt.sortKeys", "simrt.canonValue"} {
		if strings.HasPrefix(f, p) {
			return true
		}
	}
	return false
}

func trimArgs(f string) string {
	// "pkg.(*T).Method(0x..., ...)" or "pkg.Func(...)" or "pkg.Func.func1()"
	depth := 0
	for i := len(f) - 1; i >= 0; i-- {
		switch f[i] {
		case ')':
			depth++
		case '(':
			depth--
			if depth == 0 {
				return f[:i]
			}
		}
	}
	return f
}

func splitRaceReports(log string) []string {
	var out []string
	parts := strings.Split(log, "WARNING: DATA RACE")
	for _, p := range parts[1:] {
		out = append(out, p)
	}
	return out
}

func cmdWork(args []string) {
	fs := flag.NewFlagSet("work", flag.ExitOnError)
	prop := fs.String("prop", "", "")
	seed := fs.Uint64("seed", 1, "")
	from := fs.Int("from", 0, "")
	stride := fs.Int("stride", 1, "")
	count := fs.Int("count", 1, "")
	deadline := fs.Int64("deadline", 0, "unix seconds")
	exclude := fs.String("exclude", "", "")
	samples := fs.Int("samples", 0, "")
	detOnly := fs.String("det", "", "comma list of run indices: print fingerprints only")
	fs.Parse(args)
	p := props[*prop]
	if p == nil {
		fmt.Fprintln(os.Stderr, "unknown property", *prop)
		os.Exit(2)
	}
	out := bufio.NewWriter(os.Stdout)
	enc := json.NewEncoder(out)
	defer out.Flush()
	ex := parseExclude(*exclude)
	if *detOnly != "" {
		det := map[string]string{}
		for _, s := range strings.Split(*detOnly, ",") {
			i, _ := strconv.Atoi(s)
			rs := runSeed(*seed, *prop, i)
			sc := p.Gen(rs, ex)
			o := p.Run(sc)
			v := ""
			if o.Viol != nil {
				v = o.Viol.Oracle + "/" + o.Viol.Sig
			}
			det[s] = fmt.Sprintf("%016x/%016x/%s", o.FP, o.Inter, v)
			if o.Poisoned {
				break
			}
		}
		enc.Encode(workerLine{Det: det, Done: true})
		return
	}
	// watchdog: a simulated run that makes no progress for 90 s of wall clock means a task blocked on
	// something the simulator does not own; that is harness trouble (exit 2), never a verdict
	var lastBeat atomic.Int64
	lastBeat.Store(time.Now().Unix())
	go func() {
		for {
			time.Sleep(5 * time.Second)
			if time.Now().Unix()-lastBeat.Load() > 90 {
				fmt.Fprintln(os.Stderr, "WATCHDOG: a simulated run made no progress for 90 s (a task blocked on a primitive the simulator does not own?)")
				os.Exit(2)
			}
		}
	}()
	fps := map[uint64]struct{}{}
	inters := map[uint64]struct{}{}
	var stats [simrt.NStat]int64
	probes := map[string]int64{}
	var simNS int64
	var smp []interface{}
	runs := 0
	finish := func(v *workerLine) {
		l := workerLine{Runs: runs, Stats: stats[:], Probes: probes, SimNS: simNS, Samples: smp, Done: true}
		for f := range fps {
			l.FPs = append(l.FPs, strconv.FormatUint(f, 16))
		}
		for f := range inters {
			l.Inters = append(l.Inters, strconv.FormatUint(f, 16))
		}
		if v != nil {
			l.I, l.Viol, l.Scenario, l.Seed, l.Poisoned = v.I, v.Viol, v.Scenario, v.Seed, v.Poisoned
		}
		enc.Encode(l)
	}
	for k := 0; k < *count; k++ {
		if *deadline > 0 && k%8 == 0 && time.Now().Unix() >= *deadline {
			break
		}
		i := *from + k**stride
		rs := runSeed(*seed, *prop, i)
		sc := p.Gen(rs, ex)
		before := raceLogSize()
		o := p.Run(sc)
		lastBeat.Store(time.Now().Unix())
		runs++
		for j := range stats {
			stats[j] += o.Stats[j]
		}
		for k, v := range o.Probes {
			probes[k] += v
		}
		simNS += o.SimNS
		if o.Nontrivial && len(fps) < 4_000_000 {
			fps[o.FP] = struct{}{}
		}
		if o.Inter != 0 && len(inters) < 4_000_000 {
			inters[o.Inter] = struct{}{}
		}
		if len(smp) < *samples && o.Sample != nil {
			smp = append(smp, o.Sample)
		}
		viol := o.Viol
		if viol == nil && p.Race() {
			if rep := readRaceLog(before); rep != "" {
				for _, r := range splitRaceReports(rep) {
					sig, inTwig := raceSignature(r)
					if inTwig {
						d := r
						if len(d) > 3000 {
							d = d[:3000]
						}
						viol = &Violation{Oracle: "race", Sig: sig, Detail: d}
						break
					}
				}
			}
		}
		if harnessRace {
			out.Flush()
			os.Exit(2)
		}
		if viol != nil || o.Poisoned {
			raw, _ := json.Marshal(sc)
			finish(&workerLine{I: i, Viol: viol, Scenario: raw, Seed: rs, Poisoned: o.Poisoned})
			return
		}
	}
	finish(nil)
}

func cmdGen(args []string) {
	fs := flag.NewFlagSet("gen", flag.ExitOnError)
	prop := fs.String("prop", "", "")
	seed := fs.Uint64("seed", 1, "")
	idx := fs.Int("i", 0, "")
	fs.Parse(args)
	p := props[*prop]
	sc := p.Gen(runSeed(*seed, *prop, *idx), map[string]bool{})
	b, _ := json.MarshalIndent(sc, "", " ")
	fmt.Println(string(b))
}

// runReplay executes a replay file in this process; returns the violation found (or nil).
func runReplay(p Prop, rp *Replay) (*Violation, *Outcome) {
	if len(rp.Sequence) > 0 {
		var v *Violation
		var o *Outcome
		for _, idx := range rp.Sequence {
			sc := p.Gen(runSeed(rp.Seed, rp.Property, idx), parseExclude(rp.Exclude))
			before := raceLogSize()
			o = p.Run(sc)
			v = o.Viol
			if v == nil && p.Race() {
				if rep := readRaceLog(before); rep != "" {
					for _, r := range splitRaceReports(rep) {
						if sig, in := raceSignature(r); in {
							v = &Violation{Oracle: "race", Sig: sig, Detail: r}
							break
						}
					}
				}
			}
			if v != nil && idx != rp.Sequence[len(rp.Sequence)-1] {
				return v, o // fails earlier than recorded: still a violation of this sequence
			}
		}
		return v, o
	}
	sc, err := p.Decode(rp.Scenario)
	if err != nil {
		fmt.Fprintln(os.Stderr, "bad scenario:", err)
		os.Exit(2)
	}
	before := raceLogSize()
	o := p.Run(sc)
	v := o.Viol
	if v == nil && p.Race() {
		if rep := readRaceLog(before); rep != "" {
			for _, r := range splitRaceReports(rep) {
				if sig, in := raceSignature(r); in {
					v = &Violation{Oracle: "race", Sig: sig, Detail: r}
					break
				}
			}
		}
	}
	return v, o
}

func cmdReplay(args []string) {
	fs := flag.NewFlagSet("replay", flag.ExitOnError)
	file := fs.String("file", "", "")
	quiet := fs.Bool("quiet", false, "")
	explicitOut := fs.String("explicit-out", "", "write the scenario with the schedule actually taken made explicit")
	fs.Parse(args)
	b, err := os.ReadFile(*file)
	if err != nil {
		fmt.Fprintln(os.Stderr, err)
		os.Exit(2)
	}
	var rp Replay
	if err := json.Unmarshal(b, &rp); err != nil {
		fmt.Fprintln(os.Stderr, err)
		os.Exit(2)
	}
	p := props[rp.Property]
	if p == nil {
		fmt.Fprintln(os.Stderr, "unknown property", rp.Property)
		os.Exit(2)
	}
	v, o := runReplay(p, &rp)
	if *explicitOut != "" {
		if sp, ok := p.(Scheduled); ok && len(o.Taken) > 0 {
			sc, _ := p.Decode(rp.Scenario)
			raw, _ := json.Marshal(sp.WithSchedule(sc, o.Taken))
			os.WriteFile(*explicitOut, raw, 0o644)
		}
	}
	res := map[string]interface{}{"fp": fmt.Sprintf("%016x", o.FP)}
	if v != nil {
		res["violation"] = v
	}
	if *quiet {
		js, _ := json.Marshal(res)
		fmt.Println(string(js))
	}
	if v != nil {
		if !*quiet {
			fmt.Printf("oracle=%s sig=%s\n%s\n", v.Oracle, v.Sig, v.Detail)
			fmt.Printf("VIOLATION property=%s replay=%s\n", rp.Property, *file)
		}
		os.Exit(1)
	}
	if !*quiet {
		fmt.Println("no violation reproduced; event_log_hash", fmt.Sprintf("%016x", o.FP))
	}
}

// ---------- driver ----------

type knownFinding struct {
	Property string   `json:"property"`
	ID       string   `json:"id"`
	Status   string   `json:"status"` // known | fixed
	What     string   `json:"what"`
	Sig      string   `json:"signature,omitempty"`
	Oracle   string   `json:"oracle,omitempty"`
	Replay   string   `json:"pinned_replay,omitempty"`
	Exclude  []string `json:"generator_feature_excluded,omitempty"`
	Commit   string   `json:"commit,omitempty"`
}

func selfExe() string {
	e, err := os.Executable()
	if err != nil {
		return os.Args[0]
	}
	return e
}

func spawn(args []string, env []string) ([]workerLine, string, error) {
	cmd := exec.Command(selfExe(), args...)
	cmd.Env = append(os.Environ(), env...)
	var stderr strings.Builder
	cmd.Stderr = &stderr
	outb, err := cmd.Output()
	var lines []workerLine
	sc := bufio.NewScanner(strings.NewReader(string(outb)))
	sc.Buffer(make([]byte, 1<<20), 1<<30)
	for sc.Scan() {
		var l workerLine
		if json.Unmarshal(sc.Bytes(), &l) == nil {
			lines = append(lines, l)
		}
	}
	return lines, stderr.String(), err
}

func raceEnv(dir string, tag string) []string {
	lp := filepath.Join(dir, "race-"+tag)
	return []string{"GORACE=log_path=" + lp + " halt_on_error=0 history_size=4", "VERIF_RACE_LOG=" + lp}
}

// replayInChild runs a scenario in a fresh process and returns the violation it reports.
func replayInChild(dir string, rp *Replay, tag string, race bool) (*Violation, string, error) {
	f := filepath.Join(dir, "cand-"+tag+".json")
	b, _ := json.Marshal(rp)
	os.WriteFile(f, b, 0o644)
	var env []string
	if race {
		env = raceEnv(dir, tag)
	}
	cmd := exec.Command(selfExe(), "replay", "-quiet", "-file", f)
	cmd.Env = append(os.Environ(), env...)
	outb, err := cmd.Output()
	var res struct {
		FP        string     `json:"fp"`
		Violation *Violation `json:"violation"`
	}
	for _, ln := range strings.Split(string(outb), "\n") {
		if strings.HasPrefix(ln, "{") {
			json.Unmarshal([]byte(ln), &res)
		}
	}
	if err != nil {
		if ee, ok := err.(*exec.ExitError); ok && ee.ExitCode() == 1 {
			err = nil
		}
	}
	return res.Violation, res.FP, err
}

func sameViolation(a, b *Violation) bool {
	return a != nil && b != nil && a.Oracle == b.Oracle && a.Sig == b.Sig
}

func cmdDrive(args []string) {
	fs := flag.NewFlagSet("drive", flag.ExitOnError)
	propID := fs.String("prop", "", "")
	tier := fs.String("tier", "quick", "")
	seed := fs.Uint64("seed", 1, "")
	workers := fs.Int("workers", runtime.NumCPU(), "")
	runsFlag := fs.Int("runs", 0, "total simulated runs (0 = tier default)")
	budget := fs.Int("budget", 0, "seconds of search (0 = tier default)")
	evidence := fs.String("evidence", "", "")
	replayDir := fs.String("replays", "/verif/replays", "")
	knownFile := fs.String("known", "/verif/known_findings.json", "")
	scratch := fs.String("scratch", os.TempDir(), "")
	code := fs.String("code", "", "code fingerprint")
	censusFile := fs.String("census", "", "")
	fs.Parse(args)
	p := props[*propID]
	if p == nil {
		fmt.Fprintln(os.Stderr, "unknown property", *propID)
		os.Exit(2)
	}
	t0 := time.Now()
	cfg := tierCfg(p, *tier)
	if *runsFlag > 0 {
		cfg.Runs = *runsFlag
	}
	if *budget > 0 {
		cfg.BudgetS = *budget
	}
	os.MkdirAll(*replayDir, 0o755)

	// known findings
	var known []knownFinding
	if b, err := os.ReadFile(*knownFile); err == nil {
		if err := json.Unmarshal(b, &known); err != nil {
			fmt.Fprintln(os.Stderr, "bad known findings file:", err)
			os.Exit(2)
		}
	}
	exclude := map[string]bool{}
	var knownHere []knownFinding
	for _, k := range known {
		if k.Property == p.ID() && k.Status == "known" {
			knownHere = append(knownHere, k)
			for _, e := range k.Exclude {
				exclude[e] = true
			}
		}
	}
	if *tier == "thorough" {
		exclude["tier:thorough"] = true // generators use deeper bounds (longer histories, more tasks, larger maps)
	}
	var exList []string
	for e := range exclude {
		exList = append(exList, e)
	}
	sort.Strings(exList)
	exArg := strings.Join(exList, ",")
	knownStill := 0
	for _, k := range knownHere {
		if k.Replay == "" {
			fmt.Printf("KNOWN-FINDING: property=%s %s\n", p.ID(), k.What)
			continue
		}
		b, err := os.ReadFile(k.Replay)
		if err != nil {
			fmt.Fprintln(os.Stderr, "known finding replay missing:", k.Replay)
			os.Exit(2)
		}
		var rp Replay
		json.Unmarshal(b, &rp)
		v, _, _ := replayInChild(*scratch, &rp, "known-"+k.ID, p.Race())
		if v != nil && v.Oracle == k.Oracle && v.Sig == k.Sig {
			fmt.Printf("KNOWN-FINDING: property=%s %s\n", p.ID(), k.What)
			knownStill++
		} else if v != nil {
			// the pinned scenario now fails differently: that is a new violation
			path := filepath.Join(*replayDir, fmt.Sprintf("%s-known-%s-changed.json", p.ID(), k.ID))
			rp.Expect = v
			jb, _ := json.MarshalIndent(rp, "", " ")
			os.WriteFile(path, jb, 0o644)
			fmt.Printf("pinned scenario of known finding %s now fails with %s/%s\n", k.ID, v.Oracle, v.Sig)
			fmt.Printf("VIOLATION property=%s replay=%s\n", p.ID(), path)
			os.Exit(1)
		} else {
			fmt.Printf("note: known finding %s no longer reproduces on this tree\n", k.ID)
		}
	}

	// fan out
	n := *workers
	if n < 1 {
		n = 1
	}
	per := (cfg.Runs + n - 1) / n
	deadline := time.Now().Add(time.Duration(cfg.BudgetS) * time.Second).Unix()
	type wres struct {
		lines  []workerLine
		stderr string
		err    error
	}
	results := make([]wres, n)
	var wg sync.WaitGroup
	for w := 0; w < n; w++ {
		wg.Add(1)
		go func(w int) {
			defer wg.Done()
			a := []string{"work", "-prop", p.ID(), "-seed", fmt.Sprint(*seed), "-from", fmt.Sprint(w), "-stride", fmt.Sprint(n),
				"-count", fmt.Sprint(per), "-deadline", fmt.Sprint(deadline), "-exclude", exArg}
			if w == 0 {
				a = append(a, "-samples", "3")
			}
			var env []string
			if p.Race() {
				env = raceEnv(*scratch, fmt.Sprintf("w%d", w))
			}
			if os.Getenv("GOMAXPROCS") == "" {
				// one task runs at a time under the baton and there is one worker process per core: more Ps per
				// process only buy scheduler and collector overhead (the sampled repeat runs use 1 and 4)
				env = append(env, "GOMAXPROCS=2")
			}
			l, se, err := spawn(a, env)
			results[w] = wres{l, se, err}
		}(w)
	}
	wg.Wait()

	agg := struct {
		runs   int
		fps    map[string]struct{}
		inters map[string]struct{}
		stats  [simrt.NStat]int64
		probes map[string]int64
		simNS  int64
		smp    []interface{}
	}{fps: map[string]struct{}{}, inters: map[string]struct{}{}, probes: map[string]int64{}}
	var firstViol *workerLine
	workerDied := false
	for w, r := range results {
		done := false
		for i := range r.lines {
			l := &r.lines[i]
			if !l.Done {
				continue
			}
			done = true
			agg.runs += l.Runs
			for _, f := range l.FPs {
				agg.fps[f] = struct{}{}
			}
			for _, f := range l.Inters {
				agg.inters[f] = struct{}{}
			}
			for j, v := range l.Stats {
				if j < len(agg.stats) {
					agg.stats[j] += v
				}
			}
			for k, v := range l.Probes {
				agg.probes[k] += v
			}
			agg.simNS += l.SimNS
			agg.smp = append(agg.smp, l.Samples...)
			if l.Viol != nil || l.Poisoned {
				if firstViol == nil || l.I < firstViol.I {
					firstViol = l
				}
			}
		}
		if !done {
			// the worker died (fatal runtime error, OOM, harness bug): harness trouble unless it is
			// a Go runtime fatal error inside a run, which the worker cannot report itself
			fmt.Fprintf(os.Stderr, "worker %d died: %v\n%s\n", w, r.err, tail(r.stderr, 4000))
			if strings.Contains(r.stderr, "fatal error: concurrent map") {
				fmt.Printf("fatal runtime error in worker %d (see stderr)\n", w)
			}
			workerDied = true
		}
	}
	if workerDied && firstViol == nil {
		os.Exit(2)
	}
	// (a worker that died while another one found a violation: the violation is reported; the death is on stderr)

	viols := 0
	var replayPath string
	if firstViol != nil && firstViol.Viol == nil && firstViol.Poisoned {
		fmt.Fprintf(os.Stderr, "run %d poisoned the process without a violation\n", firstViol.I)
		os.Exit(2)
	}
	if firstViol != nil {
		viols = 1
		rp := &Replay{Property: p.ID(), Seed: *seed, RunIndex: firstViol.I, Code: *code, Expect: firstViol.Viol, Scenario: firstViol.Scenario}
		fmt.Printf("violation in run %d: oracle=%s sig=%s\n", firstViol.I, firstViol.Viol.Oracle, firstViol.Viol.Sig)
		// confirm in a fresh process
		v, _, _ := replayInChild(*scratch, rp, "confirm", p.Race())
		for try := 0; try < 3 && !sameViolation(v, firstViol.Viol) && firstViol.Viol.Oracle == "race"; try++ {
			// the schedule replays exactly; whether the race detector still holds the earlier access of a pair in its
			// bounded per-location history (and still knows a goroutine that has finished) does not always. A report
			// is never spurious, so a race that shows in one of a few identical replays is confirmed.
			v, _, _ = replayInChild(*scratch, rp, fmt.Sprintf("confirm%d", try), p.Race())
		}
		if !sameViolation(v, firstViol.Viol) {
			// The scenario alone does not reproduce it. The violation may depend on process-wide state left
			// behind by the runs the same worker executed before: replay that worker's whole sequence.
			var seq []int
			for i := firstViol.I % n; i <= firstViol.I; i += n {
				seq = append(seq, i)
			}
			trySeq := func(sq []int, tag string) bool {
				cand := &Replay{Property: p.ID(), Seed: *seed, RunIndex: firstViol.I, Code: *code, Sequence: sq, Exclude: exArg}
				v2, _, _ := replayInChild(*scratch, cand, tag, p.Race())
				return sameViolation(v2, firstViol.Viol)
			}
			if !trySeq(seq, "seq") {
				got := "none"
				if v != nil {
					got = v.Oracle + "/" + v.Sig
				}
				fmt.Fprintf(os.Stderr, "violation did not replay in a fresh process, neither alone (got %s) nor as the worker's run sequence: nondeterminism in the harness\n", got)
				os.Exit(2)
			}
			// minimise the sequence: keep the last run, drop chunks of earlier ones
			deadline := time.Now().Add(time.Duration(cfg.ShrinkS) * time.Second)
			for size := len(seq) / 2; size >= 1 && time.Now().Before(deadline); {
				shrunk := false
				for at := 0; at+size <= len(seq)-1 && time.Now().Before(deadline); at += size {
					c := append(append([]int{}, seq[:at]...), seq[at+size:]...)
					if trySeq(c, "seqs") {
						seq = c
						shrunk = true
						break
					}
				}
				if !shrunk {
					size /= 2
				}
			}
			rp.Sequence, rp.Scenario, rp.Exclude = seq, nil, exArg
			fmt.Printf("the violation depends on state left by earlier runs in the same process; minimised to the run sequence %v\n", seq)
			v3, fp3, _ := replayInChild(*scratch, rp, "final", p.Race())
			if !sameViolation(v3, firstViol.Viol) {
				fmt.Fprintln(os.Stderr, "minimised run sequence does not replay")
				os.Exit(2)
			}
			rp.Expect, rp.FP = v3, fp3
			replayPath = filepath.Join(*replayDir, fmt.Sprintf("%s-%d-%d.json", p.ID(), *seed, firstViol.I))
			jb, _ := json.MarshalIndent(rp, "", " ")
			os.WriteFile(replayPath, jb, 0o644)
			fmt.Printf("oracle=%s sig=%s\n%s\n", v3.Oracle, v3.Sig, tail(v3.Detail, 3000))
			fmt.Printf("%s %s: %d simulated runs\n", p.ID(), *tier, agg.runs)
			fmt.Printf("VIOLATION property=%s replay=%s\n", p.ID(), replayPath)
			os.Exit(1)
		}
		unshrunk := *rp
		rp = shrink(p, rp, *scratch, cfg.ShrinkS)
		v, fp, _ := replayInChild(*scratch, rp, "final", p.Race())
		if !sameViolation(v, rp.Expect) {
			// the minimised scenario fails differently (or not at all) in a fresh process: report the scenario as it
			// was found and confirmed, unminimised, rather than nothing
			fmt.Fprintln(os.Stderr, "minimised scenario does not replay; reporting the confirmed scenario unminimised")
			rp = &unshrunk
			v, fp, _ = replayInChild(*scratch, rp, "final-unshrunk", p.Race())
		}
		if !sameViolation(v, rp.Expect) {
			fmt.Fprintln(os.Stderr, "minimised scenario does not replay")
			os.Exit(2)
		}
		rp.Expect = v
		rp.FP = fp
		replayPath = filepath.Join(*replayDir, fmt.Sprintf("%s-%d-%d.json", p.ID(), *seed, firstViol.I))
		jb, _ := json.MarshalIndent(rp, "", " ")
		os.WriteFile(replayPath, jb, 0o644)
		fmt.Printf("oracle=%s sig=%s\n%s\n", v.Oracle, v.Sig, tail(v.Detail, 3000))
	}

	// determinism self-test
	detN := cfg.DetRuns
	detBad := ""
	if firstViol == nil && detN > 0 {
		var idx []string
		step := agg.runs / detN
		if step < 1 {
			step = 1
		}
		for i := 0; i < detN && i*step < agg.runs; i++ {
			idx = append(idx, fmt.Sprint(i*step))
		}
		get := func(procs string, tag string) map[string]string {
			var env []string
			if p.Race() {
				env = raceEnv(*scratch, tag)
			}
			env = append(env, "GOMAXPROCS="+procs)
			l, _, _ := spawn([]string{"work", "-prop", p.ID(), "-seed", fmt.Sprint(*seed), "-exclude", exArg, "-det", strings.Join(idx, ",")}, env)
			for _, x := range l {
				if x.Det != nil {
					return x.Det
				}
			}
			return nil
		}
		var a, b map[string]string
		var dw sync.WaitGroup
		dw.Add(2)
		go func() { defer dw.Done(); a = get("1", "det1") }()
		go func() { defer dw.Done(); b = get("4", "det4") }()
		dw.Wait()
		if a == nil || b == nil || len(a) != len(b) {
			detBad = "determinism self-test could not run"
		} else {
			for k, v := range a {
				if b[k] != v {
					detBad = fmt.Sprintf("run %s differs between processes: %s vs %s", k, v, b[k])
					break
				}
			}
		}
		if detBad != "" {
			fmt.Fprintln(os.Stderr, "NONDETERMINISM:", detBad)
			os.Exit(2)
		}
	}

	wall := time.Since(t0).Seconds()
	ev := map[string]interface{}{
		"property_id": p.ID(),
		"tier":        *tier,
		"seed":        *seed,
		"level":       p.Level(),
		"wall_s":      wall,
		"violations":  viols,
		"assumptions": p.Assumptions(),
	}
	faults := map[string]int64{}
	for i, v := range agg.stats {
		faults[simrt.StatNames[i]] = v
	}
	var census interface{}
	if *censusFile != "" {
		if b, err := os.ReadFile(*censusFile); err == nil {
			json.Unmarshal(b, &census)
		}
	}
	if len(agg.smp) > 4 {
		agg.smp = agg.smp[:4]
	}
	if len(agg.smp) == 0 {
		agg.smp = []interface{}{"no sample recorded"}
	}
	cov := map[string]interface{}{
		"evaluations":                 agg.runs,
		"distinct_nontrivial":         len(agg.fps),
		"rule":                        p.Rule(),
		"samples":                     agg.smp,
		"seam_events_fired":           faults,
		"probes":                      agg.probes,
		"distinct_interleavings":      len(agg.inters),
		"simulated_time_s":            float64(agg.simNS) / 1e9,
		"runs_per_hour":               float64(agg.runs) / wall * 3600,
		"seeds_per_hour":              float64(agg.runs) / wall * 3600,
		"workers":                     n,
		"determinism_selftest":        map[string]interface{}{"runs_repeated_in_two_other_processes": detN, "gomaxprocs": []int{1, 4}, "mismatches": 0},
		"known_findings_reported":     knownStill,
		"generator_features_excluded": exList,
		"instrumentation_census":      census,
		"real_vs_stub": map[string]interface{}{
			"real":      "tokenizers, parser, nodes, expression evaluation, filters/functions/tests, render contexts, engine cache, Array/Chain/FileSystem/Compiled loaders, compile/serialise, attribute cache, real sync.RWMutex operations, Go race detector (race builds)",
			"simulated": "sync.Pool policy, goroutine choice, map iteration order, wall clock, file system, math/rand, size knobs",
			"stubs":     "SimLoader, spy callbacks, fault-injecting writer, reference models",
		},
		"race_build": p.Race(),
		"code":       *code,
	}
	ev["coverage"] = cov
	if *evidence != "" {
		os.MkdirAll(filepath.Dir(*evidence), 0o755)
		jb, _ := json.MarshalIndent(ev, "", " ")
		os.WriteFile(*evidence, jb, 0o644)
	}
	fmt.Printf("%s %s: %d simulated runs, %d distinct non-trivial, %d interleavings, %.1fs\n", p.ID(), *tier, agg.runs, len(agg.fps), len(agg.inters), wall)
	if viols > 0 {
		fmt.Printf("VIOLATION property=%s replay=%s\n", p.ID(), replayPath)
		os.Exit(1)
	}
	// a check that explored nothing must not say "held"
	if mf := p.MainFaults(); len(mf) > 0 {
		for _, name := range mf {
			v := agg.probes[name]
			for i, sn := range simrt.StatNames {
				if sn == name {
					v += agg.stats[i]
				}
			}
			if v == 0 {
				fmt.Fprintf(os.Stderr, "zero coverage: %q never fired in %d runs\n", name, agg.runs)
				os.Exit(2)
			}
		}
	}
	if agg.runs == 0 || len(agg.fps) < 2 {
		fmt.Fprintln(os.Stderr, "too little explored")
		os.Exit(2)
	}
}

func tail(s string, n int) string {
	if len(s) > n {
		return s[:n] + "…"
	}
	return s
}

type tierConf struct {
	Runs    int
	BudgetS int
	ShrinkS int
	DetRuns int
}

func tierCfg(p Prop, tier string) tierConf {
	q, t := propTiers(p.ID())
	if tier == "thorough" {
		return t
	}
	return q
}

// shrink greedily applies the property's candidate simplifications while the same violation persists.
func shrink(p Prop, rp *Replay, scratch string, budgetS int) *Replay {
	deadline := time.Now().Add(time.Duration(budgetS) * time.Second)
	cur, err := p.Decode(rp.Scenario)
	if err != nil {
		return rp
	}
	try := func(c interface{}, tag string) bool {
		raw, _ := json.Marshal(c)
		cand := &Replay{Property: rp.Property, Seed: rp.Seed, RunIndex: rp.RunIndex, Code: rp.Code, Scenario: raw}
		if p.Race() {
			v, _, _ := replayInChild(scratch, cand, tag, true)
			return sameViolation(v, rp.Expect)
		}
		sc, err := p.Decode(raw) // run on a decoded copy, exactly as a replay would
		if err != nil {
			return false
		}
		o := p.Run(sc)
		if o.Poisoned {
			return false
		}
		return sameViolation(o.Viol, rp.Expect)
	}
	improved := true
	steps := 0
	for improved && time.Now().Before(deadline) {
		improved = false
		for i, c := range p.Shrink(cur) {
			if time.Now().After(deadline) {
				break
			}
			if try(c, fmt.Sprintf("s%d", i%8)) {
				cur = c
				improved = true
				steps++
				break
			}
		}
	}
	// schedule minimisation: make the schedule that was actually taken explicit, then ddmin it
	if sp, ok := p.(Scheduled); ok && time.Now().Before(deadline) {
		if _, explicit := sp.ScheduleOf(cur); !explicit {
			raw, _ := json.Marshal(cur)
			cand := &Replay{Property: rp.Property, Seed: rp.Seed, RunIndex: rp.RunIndex, Code: rp.Code, Scenario: raw}
			f := filepath.Join(scratch, "explicit-in.json")
			outF := filepath.Join(scratch, "explicit-out.json")
			jb, _ := json.Marshal(cand)
			os.WriteFile(f, jb, 0o644)
			os.Remove(outF)
			cmd := exec.Command(selfExe(), "replay", "-quiet", "-file", f, "-explicit-out", outF)
			cmd.Env = append(os.Environ(), raceEnv(scratch, "explicit")...)
			cmd.Run()
			if eb, err := os.ReadFile(outF); err == nil {
				if esc, err := p.Decode(eb); err == nil && try(esc, "ex") {
					cur = esc
					sched, _ := sp.ScheduleOf(cur)
					before := len(sched)
					improved = true
					for improved && time.Now().Before(deadline) {
						improved = false
						for i, c := range p.Shrink(cur) {
							if time.Now().After(deadline) {
								break
							}
							if try(c, fmt.Sprintf("x%d", i%8)) {
								cur = c
								improved = true
								steps++
								break
							}
						}
					}
					sched, _ = sp.ScheduleOf(cur)
					fmt.Printf("explicit schedule: %d decisions minimised to %d\n", before, len(sched))
				}
			}
		}
	}
	raw, _ := json.Marshal(cur)
	fmt.Printf("shrunk in %d steps to %d bytes\n", steps, len(raw))
	return &Replay{Property: rp.Property, Seed: rp.Seed, RunIndex: rp.RunIndex, Code: rp.Code, Expect: rp.Expect, Scenario: raw}
}

package main

import (
	"encoding/json"
	"fmt"
	"io"
	"strings"

	"github.com/semihalev/twig"
	"simrt"
)

// C18 — rendering never modifies the caller's data.

type c18Sc struct {
	WorldSeed  uint64             `json:"world_seed"`
	Pool       int                `json:"pool"`
	Ctx        *Val               `json:"ctx"`
	Templates  []string           `json:"templates"` // one per task (1 = sequential leg: rendered one after the other)
	Part       string             `json:"part"`
	Concurrent bool               `json:"concurrent"`
	Via        string             `json:"via,omitempty"` // "" Engine.Render | renderto | parsed (ParseTemplate + Template.Render) | debug (engine in debug mode)
	PreemptDen int                `json:"preempt_den"`
	Explicit   bool               `json:"explicit,omitempty"`
	Schedule   []simrt.SchedEntry `json:"schedule,omitempty"`
}

type propC18 struct{}

func init() { register(propC18{}) }

func (propC18) ID() string    { return "C18" }
func (propC18) Race() bool    { return true }
func (propC18) Level() string { return "exploration" }
func (propC18) Rule() string {
	return "one run = one context graph (nested untyped/typed maps, slices with spare capacity, structs, pointers) and 2-3 generated templates that aim at mutation: every list/map filter and chains of them on context data, set/for/include-with/macro parameters that shadow context names, rebinding of context names, stability probes {% set a = E %}dump(a){% set b = a|F %}dump(a). Leg (a): templates rendered one after the other on one engine with recycling pools; deep snapshot (contents, lengths, slice elements up to cap) before/after every render; each result equals the pristine result for the untouched data. Leg (b): the same templates rendered concurrently by 2-3 tasks over the SAME context object under the seeded scheduler and the race detector: any write into caller-reachable memory races with the other tasks' reads. distinct = distinct event-log hash; non-trivial = a filter result was derived from context data and (leg b) at least two task switches happened"
}
func (propC18) Assumptions() []string {
	return []string{
		"snapshot covers everything reachable from the context by exported and unexported fields, map entries and slice elements up to capacity",
		"user callbacks are not generated: only the engine's own code is in scope",
		"scheduler hand-off invisible to the race detector; both stacks of a report are attributed (a write by twig racing with a read by the harness snapshot cannot happen: snapshots are taken outside RunTasks)",
	}
}
func (propC18) MainFaults() []string { return []string{"renders", "stability_probes"} }

func (propC18) Decode(raw []byte) (interface{}, error) {
	var sc c18Sc
	err := json.Unmarshal(raw, &sc)
	return &sc, err
}

var c18ListFilters = []string{"sort", "reverse", "slice(0, 2)", "slice(1, 2)", "slice(1)", "merge([9, 8])", "merge(il)", "merge(l1)", "default([])", "first", "last", "join(',')", "join(', ', ' and ')", "length", "json_encode", "slice(0, 3)|sort", "sort|reverse", "slice(1, 3)|reverse", "merge([1])|sort", "reverse|slice(0, 2)|sort", "sort|slice(0, 2)|merge([0])"}
var c18MapFilters = []string{"default({})|merge({'zz': 1})", "default({'q': 1})|merge({'k1': 'Y'})|keys", "merge({'k1': 'X', 'zz': 1})", "keys", "keys|sort", "keys|reverse", "first", "json_encode", "default({})", "length", "merge(m1)", "merge({'k1': 'X'})|keys|sort", "join(',')", "keys|slice(0, 1)"}

// seqFilters are the list filters that keep a list a list (safe to chain)
var c18SeqFilters = []string{"sort", "reverse", "slice(0, 2)", "slice(1)", "slice(1, 3)"}

func mapAndFilter(r *R) (string, string) {
	m := pick(r, c18Maps)
	f := pick(r, c18MapFilters)
	typed := m == "m2" || m == "mi" || m == "si"
	for typed && strings.Contains(f, "merge(") {
		f = pick(r, c18MapFilters)
	}
	return m, f
}

var c18Lists = []string{"l1", "il", "sl", "p1.Tags", "pp.Tags", "l2", "nums", "m1.list", "gl", "gm.list"}
var c18Maps = []string{"m1", "m2", "mi", "p1.Meta", "pp.Meta", "m1.inner", "si", "gm", "gm.inner"}

// listAndFilter picks a list and a filter (chain) that the engine can apply to it: merging values of
// another element type into a typed slice panics in the engine (C05's subject), which would only cut
// renders short here.
func listAndFilter(r *R) (string, string) {
	l := pick(r, c18Lists)
	f := pick(r, c18ListFilters)
	typed := l == "il" || l == "sl" || l == "p1.Tags" || l == "pp.Tags"
	for typed && strings.Contains(f, "merge(") {
		f = pick(r, c18ListFilters)
	}
	if typed && r.P(15) {
		f = "merge(" + l + ")|" + f
	}
	return l, f
}

func c18Template(r *R) string {
	var sb strings.Builder
	n := r.Range(2, 7)
	dump := func(e string) string { return "\x01{{ " + e + "|json_encode }}\x02" }
	for i := 0; i < n; i++ {
		switch r.N(31) {
		case 0, 1:
			l, f := listAndFilter(r)
			sb.WriteString("{{ " + l + "|" + f + "|json_encode }};")
		case 2:
			m, f := mapAndFilter(r)
			sb.WriteString("{{ " + m + "|" + f + "|json_encode }};")
		case 3: // stability probe on a list
			l, f := listAndFilter(r)
			sb.WriteString("{% set a = " + l + " %}" + dump("a") + "{% set b = a|" + f + " %}" + dump("a") + "\x03")
		case 4: // stability probe on a filter result
			l, f, f2 := pick(r, []string{"l1", "l2", "nums", "m1.list"}), pick(r, []string{"slice(0, 3)", "reverse", "sort", "merge([5])", "slice(1)"}), pick(r, []string{"sort", "reverse", "merge([7])", "slice(0, 1)"})
			if r.P(40) {
				l, f, f2 = pick(r, []string{"il", "sl", "pp.Tags"}), pick(r, c18SeqFilters), pick(r, c18SeqFilters)
			}
			sb.WriteString("{% set a = " + l + "|" + f + " %}" + dump("a") + "{% set b = a|" + f2 + " %}" + dump("a") + "\x03")
		case 5: // stability probe on a map
			m, f := mapAndFilter(r)
			sb.WriteString("{% set a = " + m + " %}" + dump("a") + "{% set b = a|" + f + " %}" + dump("a") + "\x03")
		case 6:
			v := pick(r, []string{"s1", "l1", "m1", "n1", "pp", "il", "g1", "gl", "gm", "gn"})
			sb.WriteString("{% set " + v + " = " + pick(r, []string{"'changed'", "[1, 2]", "l1|reverse", "m1|merge({'k1': 0})", "n1 + 1"}) + " %}{{ " + v + "|json_encode }};")
		case 7:
			v := pick(r, []string{"s1", "n1", "x", "m1", "l1"})
			sb.WriteString("{% for " + v + " in " + pick(r, c18Lists) + "|" + pick(r, c18SeqFilters) + " %}{{ " + v + "|json_encode }}{% set s2 = " + v + " %}{% endfor %};")
		case 8:
			sb.WriteString("{% include 'part' with {'l1': l1|sort, 's1': 'inc', 'm1': m1|merge({'k1': 'inc'})} %};")
		case 9:
			sb.WriteString("{% macro mm(l1, m1) %}{% set l1 = l1|reverse %}{{ l1|json_encode }}{{ m1|merge({'q': 1})|keys|json_encode }}{% endmacro %}{{ mm(" + pick(r, c18Lists) + ", " + pick(r, []string{"m1", "p1.Meta", "pp.Meta", "m1.inner"}) + ") }};")
		case 10:
			sb.WriteString("{% for k, v in " + pick(r, c18Maps) + " %}{% set v = 'w' %}{{ k }}{% endfor %};")
		case 11:
			l, f := listAndFilter(r)
			for strings.Contains(f, "first") || strings.Contains(f, "last") || strings.Contains(f, "join") || strings.Contains(f, "length") || strings.Contains(f, "json") || strings.Contains(f, "default") {
				l, f = listAndFilter(r)
			}
			sb.WriteString("{{ " + l + "|" + f + "|" + pick(r, c18SeqFilters) + "|json_encode }};")
		case 16:
			// struct VALUES with a pointer-receiver method that writes to its receiver (a memoising getter): the
			// engine must call it on a private copy, never on the caller's element
			sb.WriteString("{% for c in counters %}{{ c.Next }}{{ c.Label }}{% endfor %}{{ counters|first|json_encode }}{% set lc = counters|last %}{{ lc.Next }};")
		case 15:
			// an import alias that collides with a map the caller (or the engine) owns
			sb.WriteString("{% import 'lib18' as " + pick(r, []string{"ui", "gcfg", "ui2"}) + " %}{{ " + pick(r, []string{"ui", "gcfg"}) + "|keys|length }};{% from 'lib18' import f as ff %}{{ ff(1) }};")
		case 13:
			// an element of the caller's list of maps flows through a filter chain that ends in a writer
			sb.WriteString("{{ l2|" + pick(r, []string{"first", "last"}) + "|merge({'id': 99, 'extra': 'e'})|json_encode }};{% set row = l2|first %}{% set row2 = row|merge({'n': 'changed'}) %}{{ l2|json_encode }};")
		case 14:
			// nested interface{}-keyed map (as YAML decoders produce) reached by dot access and by subscript
			sb.WriteString("{{ cfg.db.host }}{{ cfg['db']['port'] }}{{ cfg.db|" + pick(r, []string{"keys|json_encode", "keys|json_encode", "merge({'x': 1})|keys|json_encode", "merge({'x': 1})|keys|json_encode", "length", "length", "keys|sort|json_encode", "json_encode"}) + " }}{{ cfg.list|first }};")
		case 17:
			// structs reached by pointer whose optional parts are absent: embedded pointer nil (promoted names
			// unreachable), nil pointer field, nil map, nil slice - reading through them must not fill them in
			h := pick(r, []string{"hold", "hold", "hold2", "hf", "hl"})
			sb.WriteString("{% set hf = holders|first %}{% set hl = holders|last %}{{ " + h + "." + pick(r, []string{"ID", "Slug", "Title", "Opt.Name", "Opt", "Notes.k", "Notes|default({})|keys|length", "Refs|default([])|length", "Refs|first", "BaseRec.ID", "BaseRec"}) + "|default('-') }}{% for h in holders %}{{ h." + pick(r, []string{"ID", "Slug", "Title", "Opt.Age", "Notes.x"}) + " }}{% endfor %}{{ " + h + ".ID is defined ? 'd' : 'u' }};")
		case 18:
			// assignment targets that spell a path into the caller's data (this engine binds a variable of that
			// literal name; whatever it does, the caller's nested maps are not its to write)
			tgt := pick(r, []string{"m1.inner.a", "m1.inner.zz", "gm.inner.b", "p1.Meta.z", "pp.Meta.y", "cfg.list.x", "m1.k1", "hold2.Notes.k", "gcfg.mode.x"})
			sb.WriteString("{% set " + tgt + " = " + pick(r, []string{"'w'", "[1]", "n1"}) + " %}{{ m1.inner|json_encode }}{{ " + tgt + "|default('-') }};")
		case 19:
			// a value whose own methods would consume it if the engine called them (io.WriterTo, io.Reader)
			sb.WriteString("{{ " + pick(r, []string{"buf", "buf", "buf|upper", "buf|trim", "buf|default('d')", "buf ~ '!'", "m1.stream", "m1.blob|upper", "m1.blob|lower", "m1.blob|capitalize", "m1.blob|title", "m1.blob|reverse", "m1.blob|trim|upper", "m1.blob|replace({'b': 'B'})"}) + " }};")
		case 20:
			// the caller's variables cross into a sandboxed include (policy installed): among them Go callables
			sb.WriteString("{% include 'part' " + pick(r, []string{"sandboxed", "with {'s1': 'sb'} sandboxed", "with {'m1': svc} sandboxed"}) + " %}{{ svc.name }}{{ svc.handlers.label }};")
		case 22:
			// typed containers: slices of struct values (whose inner slices and maps are still the caller's), maps of
			// slices, a pointer to a pointer, a typed nil in an interface
			sb.WriteString(pick(r, []string{
				"{% for q in people %}{{ q.Name }}{{ q.Tags|sort|join(',') }}{{ q.Meta|merge({'x': 1})|keys|join(',') }}{% endfor %};",
				"{{ people|first|json_encode }}{{ people|reverse|first|json_encode }}{{ people|slice(0, 1)|json_encode }}{{ people|length }};",
				"{% set q = people|last %}{{ q.Tags|reverse|first }}{{ q.Tags|sort|first }}{{ q.Tags|slice(1)|join }};",
				"{{ mos.a|sort|join(',') }}{{ mos.a|reverse|first }}{{ mos.b|slice(0, 1)|json_encode }}{{ mos|keys|join(',') }}{% for k, l in mos %}{{ l|sort|first }}{% endfor %};",
				"{{ parr|" + pick(r, []string{"sort|join(',')", "reverse|first", "slice(0, 2)|json_encode", "first", "join(',')", "merge([9])|length"}) + " }}{{ arr|" + pick(r, []string{"first", "join(',')", "sort|join(',')", "reverse|first"}) + " }};",
				"{{ pp2.Name }}{{ pp2.Tags|sort|join(',') }}{{ inil.Name|default('nil') }}{{ inil is null ? 'n' : 'p' }}{{ inil|default('d') }};",
			}))
		case 23:
			// escaping applied to containers (nested lists and hashes whose strings need escaping)
			sb.WriteString("{{ " + pick(r, []string{"html", "html|first", "html.rows", "l2", "gm", "m1"}) + "|" + pick(r, []string{"e", "escape", "e|length", "escape|json_encode", "e|first"}) + " }};{{ html.rows|first|first }};")
		case 24:
			// values a template only looks at (truthiness, definedness), never prints: funcs that would compute something
			sb.WriteString("{% if svc.lazy %}L{% endif %}{{ svc.lazy is defined ? 'd' : 'u' }}{{ svc['lazy'] is null ? 'n' : 'v' }}{% if svc.handlers.lz %}H{% endif %}{% if lz %}T{% endif %};")
		case 25:
			// membership tests against long lists; the merge FUNCTION on hashes that share nested keys
			sb.WriteString(pick(r, []string{
				"{{ 'k17' in longl ? 1 : 0 }}{{ 5 not in longl ? 1 : 0 }}{{ 'zz' in longl ? 1 : 0 }}{{ longl|first }}",
				"{% set mg = merge(cfgd, cfgs) %}{{ mg.db.port }}{{ mg|keys|join(',') }}{{ cfgd.db.port }}",
				"{% set ov = {'zz': 1} %}{{ merge(m1, {'inner': ov})|keys|length }}{{ merge(gm, m1)|length }}{{ m1.inner|keys|join(',') }}",
			}) + ";")
		case 26:
			// a filter that RETURNS its hash-literal argument, then another filter call with a hash-literal argument
			sb.WriteString("{% set a = zz9|default({'k': 10, 'c': 'red'}) %}" + dump("a") + "{% set b = " + pick(r, []string{"m1|merge({'q': 2})", "gm|merge({'w': 'x', 'v': 1})|keys", "zz8|default({'other': 1})"}) + " %}" + dump("a") + "\x03{{ a.k }}{{ a.c }};")
		case 27:
			// arbitrary-precision numbers (pointer types with in-place arithmetic)
			sb.WriteString("{{ bigi|abs }}{{ bigr|abs }}{{ bigi }}{{ bigi|default(0) }}{{ bigi|json_encode }};")
		case 28:
			// a caller's hash as the ARGUMENT of a filter; values that implement sort.Interface
			if r.P(25) {
				// (this engine answers the one-argument form with an error, which ends the render: kept rare)
				sb.WriteString(pick(r, []string{"{{ s1|replace(repl) }}", "{{ 'xay'|replace(cfgs) }}", "{{ S2|replace(repl) }}"}) + ";")
			} else {
				sb.WriteString(pick(r, []string{"{{ ss|sort|join(',') }}{{ ss|first }}{{ ss|reverse|first }}", "{{ ss|sort|first }}{{ ss|join(',') }}"}) + ";")
			}
		case 29:
			// database rows: optional times as pointers (zero = unset), nullable columns; joining with a last separator
			sb.WriteString(pick(r, []string{"{{ deleted|date('Y') }}{{ row.DeletedAt|date('Y') }}", "{{ created|date('Y') }}{{ row.UpdatedAt|date('Y') }}{{ row.CreatedAt|date('Y-m-d') }}",
				"{{ row.Email.String }}{{ row.Email.Valid ? 'v' : 'n' }}{{ row.Seats.Int64 }}{{ row.Email|json_encode }}", "{{ deleted is null ? 'n' : 's' }}{{ row.DeletedAt is null ? 'n' : 's' }}{{ row.DeletedAt|date('Y') }}",
				"{{ sl|join(', ', ' and ') }}{{ p1.Tags|join('-', '+') }}{{ l1|join(', ', ' or ') }}"}) + ";")
		default:
			sb.WriteString("{% do " + "n1 + 1 %}{{ pp.Inner.Name }}{{ pp.Greeting }}{{ l2|first|json_encode }};")
		}
	}
	return sb.String()
}

const c18Lib = "{% macro f(x) %}f({{ x }}){% endmacro %}{% macro g(y) %}g{% endmacro %}"

const c18Part = "[{{ l1|reverse|json_encode }}{% set l1 = [] %}{% set m1 = m1|merge({'p': 1}) %}{{ s1 }}{{ m1|keys|sort|json_encode }}]"

func (propC18) Gen(seed uint64, ex map[string]bool) interface{} {
	r := newR(seed)
	sc := &c18Sc{WorldSeed: simrt.Mix(seed, 8), Pool: pick(r, []int{simrt.PoolLIFO, simrt.PoolLIFO, simrt.PoolRandom}), Part: c18Part}
	ctx := defaultCtx(r)
	s := func(x string) *Val { return &Val{T: "str", S: x} }
	i := func(x int) *Val { return &Val{T: "int", I: int64(x)} }
	ctx.M = append(ctx.M,
		KV{"nums", &Val{T: "list", L: []*Val{i(5), i(3), i(9), i(1), i(7)}}},
		KV{"si", &Val{T: "simap", M: []KV{{"one", i(1)}, {"two", i(2)}, {"three", i(3)}}}},
		KV{"counters", &Val{T: "counters", L: []*Val{i(1), i(5), i(9)}}},
		KV{"people", &Val{T: "people", L: []*Val{{T: "str", S: "zed", I: 30}, {T: "str", S: "amy", I: 20}, {T: "str", S: "bob", I: 25}}}},
		KV{"mos", &Val{T: "mos", M: []KV{{"b", &Val{T: "ilist", L: []*Val{i(9), i(1), i(5)}}}, {"a", &Val{T: "ilist", L: []*Val{i(3), i(2), i(1)}}}}}},
		KV{"pp2", &Val{T: "pptr", S: "deep", I: 4}},
		KV{"parr", &Val{T: "parr"}},
		KV{"arr", &Val{T: "arr"}},
		KV{"inil", &Val{T: "inil"}},
		KV{"longl", &Val{T: "list", L: func() []*Val {
			var l []*Val
			for k := 59; k >= 0; k-- {
				l = append(l, s(fmt.Sprintf("k%02d", (k*37)%60)))
			}
			return l
		}()}},
		KV{"cfgd", &Val{T: "map", M: []KV{{"db", &Val{T: "map", M: []KV{{"host", s("h")}, {"port", i(1)}}}}, {"name", s("defaults")}}}},
		KV{"cfgs", &Val{T: "map", M: []KV{{"db", &Val{T: "map", M: []KV{{"port", i(2)}}}}, {"site", s("s")}}}},
		KV{"repl", &Val{T: "map", M: []KV{{"", s("empty-key")}, {"a", i(1)}, {"b", s("c")}, {"hello", &Val{T: "bool", B: true}}}}},
		KV{"ss", &Val{T: "sortable", L: []*Val{s("c"), s("a"), s("b")}}},
		KV{"bigi", &Val{T: "bigint", I: -250}},
		KV{"deleted", &Val{T: "timeptr"}},
		KV{"created", &Val{T: "timeptr", I: 1_700_000_000}},
		KV{"row", &Val{T: "row", S: "e@x", I: 3}},
		KV{"bigr", &Val{T: "bigrat", I: -3}},
		KV{"buf", &Val{T: "buffer", S: "buffered <text>"}},
		KV{"lz", &Val{T: "lazy", S: "top"}},
		KV{"html", &Val{T: "map", M: []KV{{"title", s("<b>T & t</b>")}, {"rows", &Val{T: "list", L: []*Val{{T: "list", L: []*Val{s("<td>"), s("a&b")}}, {T: "map", M: []KV{{"k", s("<i>\"q\"</i>")}}}}}}}}},
		KV{"svc", &Val{T: "map", M: []KV{{"name", s("svc")}, {"fn", &Val{T: "func", S: "called"}}, {"lazy", &Val{T: "lazy", S: "computed"}}, {"handlers", &Val{T: "map", M: []KV{{"label", s("L")}, {"h", &Val{T: "func", S: "h-called"}}, {"lz", &Val{T: "lazy", S: "nested"}}}}}}}},
		KV{"hold", &Val{T: "holder", S: "bare"}},
		KV{"hold2", &Val{T: "holder", S: "full", I: 7}},
		KV{"holders", &Val{T: "holders", L: []*Val{{T: "holder", S: "h1"}, {T: "holder", S: "h2", I: 2}, {T: "holder", S: "h3"}}}},
		KV{"loop", &Val{T: "map", M: []KV{{"index", s("callers")}, {"mine", i(1)}}}}, // a caller's variable that merely shares its name with the engine's loop variable
		KV{"ui", &Val{T: "map", M: []KV{{"theme", s("dark")}}}},                      // only ever used as an import alias and for |keys|length: a module map must not be printed (its macro objects print as addresses)
		KV{"cfg", &Val{T: "map", M: []KV{
			{"db", &Val{T: "anymap", M: []KV{{"host", s("h")}, {"port", i(5432)}, {"opts", &Val{T: "anymap", M: []KV{{"ssl", &Val{T: "bool", B: true}}}}}}}},
			{"list", &Val{T: "list", L: []*Val{s("a"), s("b")}}}}}},
	)
	for k := range ctx.M {
		if ctx.M[k].K == "m1" {
			ctx.M[k].V.M = append(ctx.M[k].V.M, KV{"stream", &Val{T: "buffer", S: "stream"}}, KV{"blob", &Val{T: "bytes", S: "b\x00loB"}}, KV{"list", &Val{T: "list", L: []*Val{s("z"), s("y"), s("x")}}}, KV{"inner", &Val{T: "map", M: []KV{{"b", i(2)}, {"a", i(1)}}}})
		}
	}
	sc.Ctx = ctx
	nt := r.Range(2, 3)
	if ex["tier:thorough"] {
		nt = r.Range(2, 5)
	}
	for t := 0; t < nt; t++ {
		sc.Templates = append(sc.Templates, c18Template(r))
	}
	sc.Concurrent = r.P(50)
	sc.Via = pick(r, []string{"", "", "renderto", "parsed", "debug"})
	sc.PreemptDen = pick(r, []int{4, 16, 64})
	return sc
}

// c18Build builds the context with spare capacity in every []interface{} so that appends by the
// engine would land in caller-owned memory.
func c18Build(v *Val) map[string]interface{} {
	ctx := BuildCtx(v, 0)
	var grow func(x interface{}) interface{}
	grow = func(x interface{}) interface{} {
		switch t := x.(type) {
		case []interface{}:
			n := make([]interface{}, len(t), len(t)+3)
			for i := range t {
				n[i] = grow(t[i])
			}
			full := n[:cap(n)]
			for i := len(t); i < cap(n); i++ {
				full[i] = "spare"
			}
			return n
		case map[string]interface{}:
			for k, e := range t {
				t[k] = grow(e)
			}
			return t
		case []int:
			n := make([]int, len(t), len(t)+3)
			copy(n, t)
			return n
		case []string:
			n := make([]string, len(t), len(t)+3)
			copy(n, t)
			return n
		}
		return x
	}
	for k, e := range ctx {
		ctx[k] = grow(e)
	}
	return ctx
}

// probeMismatch checks the stability probes \x01dump\x02...\x01dump\x02\x03 in an output.
func probeMismatch(out string) (string, int) {
	n := 0
	for _, seg := range strings.Split(out, "\x03") {
		var dumps []string
		rest := seg
		for {
			i := strings.Index(rest, "\x01")
			if i < 0 {
				break
			}
			j := strings.Index(rest[i:], "\x02")
			if j < 0 {
				break
			}
			dumps = append(dumps, rest[i+1:i+j])
			rest = rest[i+j+1:]
		}
		if len(dumps) >= 2 {
			n++
			if dumps[len(dumps)-2] != dumps[len(dumps)-1] {
				return fmt.Sprintf("before: %s\n after:  %s", dumps[len(dumps)-2], dumps[len(dumps)-1]), n
			}
		}
	}
	return "", n
}

func (propC18) Run(scI interface{}) *Outcome {
	sc := scI.(*c18Sc)
	o := &Outcome{Probes: map[string]int64{}}
	den := 0
	if sc.Concurrent {
		den = sc.PreemptDen
	}
	w := simrt.Begin(simrt.Config{Seed: sc.WorldSeed, PoolPolicy: sc.Pool, MapOrder: simrt.OrderSorted, ClockStart: 1_700_000_000e9, ClockStep: 1e6,
		PreemptDen: den, Explicit: sc.Explicit, Schedule: sc.Schedule})
	defer simrt.End()
	twig.SetDebugWriter(io.Discard)
	saved := twig.VerifSwapGlobals(nil)
	defer twig.VerifSwapGlobals(saved)
	fail := func(or, sig, d string) *Outcome {
		o.Viol = &Violation{Oracle: or, Sig: sig, Detail: d}
		o.FP = w.Fingerprint()
		o.Stats = w.Stat
		return o
	}
	// pristine expectation per template, each on untouched data
	want := make([]Obs, len(sc.Templates))
	func() {
		w.EnterPristine()
		defer w.LeavePristine()
		coldGlobals := twig.VerifSwapGlobals(nil) // do not warm process-wide caches for the run under test
		defer twig.VerifSwapGlobals(coldGlobals)
		for i, src := range sc.Templates {
			pe := twig.New()
			installSandbox(pe)
			installGlobals(pe)
			pe.RegisterString("part", sc.Part)
			pe.RegisterString("lib18", c18Lib)
			pe.RegisterString("t", src)
			want[i] = observe(nil, func() (string, error) { return pe.Render("t", c18Build(sc.Ctx)) })
		}
	}()
	e := twig.New()
	installSandbox(e)
	globals := installGlobals(e) // engine-wide globals are caller-owned data too
	globalsBefore := snapshot(globals) + snapshot(twig.VerifEngineGlobals(e))
	if sc.Via == "debug" {
		e.SetDebug(true)
	}
	e.RegisterString("part", sc.Part)
	e.RegisterString("lib18", c18Lib)
	parsed := make([]*twig.Template, len(sc.Templates))
	for i, src := range sc.Templates {
		e.RegisterString(fmt.Sprintf("t%d", i), src)
		if sc.Via == "parsed" {
			parsed[i], _ = e.ParseTemplate(src) // parsed before any task starts
		}
	}
	render := func(i int, ctx map[string]interface{}) (string, error) {
		switch {
		case sc.Via == "renderto":
			var sb strings.Builder
			if err := e.RenderTo(&sb, fmt.Sprintf("t%d", i), ctx); err != nil {
				return "", err
			}
			return sb.String(), nil
		case sc.Via == "parsed" && parsed[i] != nil:
			return parsed[i].Render(ctx)
		}
		return e.Render(fmt.Sprintf("t%d", i), ctx)
	}
	ctx := c18Build(sc.Ctx)
	before := snapshot(ctx)
	got := make([]Obs, len(sc.Templates))
	if !sc.Concurrent {
		for i := range sc.Templates {
			got[i] = observe(nil, func() (string, error) { return render(i, ctx) })
			o.Probes["renders"]++
			if after := snapshot(ctx); after != before {
				return fail("caller-data-snapshot", "render modified the caller's context data", fmt.Sprintf("template #%d %q\n%s", i, sc.Templates[i], diffSnap(before, after)))
			}
		}
	} else {
		for i := range sc.Templates {
			i := i
			w.Go(func() {
				got[i] = observe(nil, func() (string, error) { return render(i, ctx) })
			})
		}
		if ab := w.RunTasks(); ab != "" {
			o.Poisoned = true
			return fail("liveness", ab, "run aborted: "+ab)
		}
		o.Probes["renders"] += int64(len(sc.Templates))
		o.Probes["concurrent_runs"]++
		if after := snapshot(ctx); after != before {
			return fail("caller-data-snapshot", "concurrent renders modified the shared context data", diffSnap(before, after))
		}
		o.Taken = w.Taken()
		o.Inter = w.SwitchHash()
	}
	o.FP = w.Fingerprint()
	o.Stats = w.Stat
	o.SimNS = w.NowNS() - 1_700_000_000e9
	o.Nontrivial = !sc.Concurrent || w.Switches() > 2
	if after := snapshot(globals) + snapshot(twig.VerifEngineGlobals(e)); after != globalsBefore {
		return fail("caller-data-snapshot", "render modified the engine's global data", diffSnap(globalsBefore, after))
	}
	for i := range sc.Templates {
		if got[i].Key() != want[i].Key() {
			return fail("pristine-result", fmt.Sprintf("render over shared data differs from render over untouched data (%s vs %s)", got[i].Class, want[i].Class),
				fmt.Sprintf("template #%d %q (concurrent=%v)\n shared data:    %s\n untouched data: %s", i, sc.Templates[i], sc.Concurrent, got[i], want[i]))
		}
		if got[i].Class == "ok" {
			d, n := probeMismatch(got[i].Out)
			o.Probes["stability_probes"] += int64(n)
			if d != "" {
				return fail("filter-result-stability", "a value changed after a filter was applied to it", fmt.Sprintf("template #%d %q\n %s", i, sc.Templates[i], d))
			}
		}
		o.Probes["class_"+got[i].Class]++
	}
	o.Sample = map[string]interface{}{"concurrent": sc.Concurrent, "templates": sc.Templates, "switches": w.Switches()}
	return o
}

func diffSnap(a, b string) string {
	i := 0
	for i < len(a) && i < len(b) && a[i] == b[i] {
		i++
	}
	lo := i - 120
	if lo < 0 {
		lo = 0
	}
	hiA, hiB := i+120, i+120
	if hiA > len(a) {
		hiA = len(a)
	}
	if hiB > len(b) {
		hiB = len(b)
	}
	return fmt.Sprintf(" before: …%s…\n after:  …%s…", a[lo:hiA], b[lo:hiB])
}

func (propC18) WithSchedule(scI interface{}, sched []simrt.SchedEntry) interface{} {
	sc := scI.(*c18Sc)
	b, _ := json.Marshal(sc)
	var c c18Sc
	json.Unmarshal(b, &c)
	c.Explicit, c.Schedule, c.PreemptDen = true, sched, 0
	return &c
}

func (propC18) ScheduleOf(scI interface{}) ([]simrt.SchedEntry, bool) {
	sc := scI.(*c18Sc)
	return sc.Schedule, sc.Explicit
}

func (propC18) Shrink(scI interface{}) []interface{} {
	sc := scI.(*c18Sc)
	var out []interface{}
	clone := func() *c18Sc {
		b, _ := json.Marshal(sc)
		var c c18Sc
		json.Unmarshal(b, &c)
		return &c
	}
	if sc.Explicit {
		n := len(sc.Schedule)
		for size := n / 2; size >= 1; size /= 2 {
			for at := 0; at+size <= n; at += size {
				c := clone()
				c.Schedule = append(c.Schedule[:at], c.Schedule[at+size:]...)
				out = append(out, c)
			}
		}
		return out
	}
	if sc.Concurrent {
		c := clone()
		c.Concurrent = false
		out = append(out, c)
	}
	if sc.Via != "" {
		c := clone()
		c.Via = ""
		out = append(out, c)
	}
	if len(sc.Templates) > 1 {
		for i := range sc.Templates {
			c := clone()
			c.Templates = append(c.Templates[:i], c.Templates[i+1:]...)
			out = append(out, c)
		}
	}
	// drop ';'-terminated pieces of a template
	for ti, t := range sc.Templates {
		parts := strings.SplitAfter(t, ";")
		if len(parts) > 1 {
			for pi := range parts {
				c := clone()
				c.Templates[ti] = strings.Join(append(append([]string{}, parts[:pi]...), parts[pi+1:]...), "")
				out = append(out, c)
			}
		}
	}
	for ki := range sc.Ctx.M {
		c := clone()
		c.Ctx.M = append(c.Ctx.M[:ki], c.Ctx.M[ki+1:]...)
		out = append(out, c)
	}
	return out
}

package main

import (
	"flag"
	"fmt"
	"sort"
)

// survey runs N scenarios without stopping at violations and tabulates violation signatures
// (developer tool; not used by the registered checks).
func init() {
	extraCmds["survey"] = func(args []string) {
		fs := flag.NewFlagSet("survey", flag.ExitOnError)
		prop := fs.String("prop", "", "")
		n := fs.Int("n", 500, "")
		seed := fs.Uint64("seed", 1, "")
		exclude := fs.String("exclude", "", "")
		fs.Parse(args)
		p := props[*prop]
		counts := map[string]int{}
		ex := map[string]string{}
		for i := 0; i < *n; i++ {
			sc := p.Gen(runSeed(*seed, *prop, i), parseExclude(*exclude))
			o := p.Run(sc)
			if o.Poisoned {
				fmt.Println("poisoned at", i)
				break
			}
			if o.Viol != nil {
				k := o.Viol.Oracle + " / " + o.Viol.Sig
				counts[k]++
				if _, ok := ex[k]; !ok {
					ex[k] = fmt.Sprintf("run %d: %s", i, tail(o.Viol.Detail, 900))
				}
			}
		}
		var ks []string
		for k := range counts {
			ks = append(ks, k)
		}
		sort.Strings(ks)
		for _, k := range ks {
			fmt.Printf("%5d  %s\n   %s\n", counts[k], k, ex[k])
		}
		fmt.Println("done", *n)
	}
}

package main

import (
	"encoding/json"
	"fmt"
	"io"
	"regexp"
	"sort"
	"strconv"
	"strings"
	"time"

	"github.com/anishathalye/porcupine"
	"github.com/semihalev/twig"
	"simrt"
)

// C02 — concurrent use of one engine is safe and equals serial use.

type c02Op struct {
	K    string `json:"k"` // render renderto load parse register shared
	Name string `json:"name,omitempty"`
	Src  string `json:"src,omitempty"`
	V    string `json:"v,omitempty"` // context value v
}

type c02Sc struct {
	WorldSeed  uint64             `json:"world_seed"`
	Cache      string             `json:"cache"`  // on | off | autoreload
	Loader     string             `json:"loader"` // array | fs | chain
	Pool       int                `json:"pool"`
	Debug      bool               `json:"debug,omitempty"`
	Preload    []string           `json:"preload"` // names loaded before the tasks start (others are first-loaded concurrently)
	Extra      []Tmpl             `json:"extra"`   // generated templates added to the site
	Tasks      [][]c02Op          `json:"tasks"`
	PreemptDen int                `json:"preempt_den"`
	PCT        []int64            `json:"pct_steps,omitempty"`
	Explicit   bool               `json:"explicit,omitempty"`
	Schedule   []simrt.SchedEntry `json:"schedule,omitempty"`
}

var c02Site = map[string]string{
	"a/x":     "XA[{% include './p' %}]{{ v }}",
	"b/y":     "YB[{% include './p' %}]{{ v }}",
	"a/p":     "PA{{ tick() }}",
	"b/p":     "PB{{ tick() }}",
	"a/base":  "<A{% block c %}ab{% endblock %}|{{ tick() }}>",
	"b/base":  "<B{% block c %}bb{% endblock %}|{{ tick() }}>",
	"a/sub/z": "{% extends '../base' %}{% block c %}Z{{ v }}{{ parent() }}{% endblock %}",
	"b/w":     "{% extends './base' %}{% block c %}W{{ v }}{{ parent() }}{% endblock %}",
	"a/lib":   "{% macro f(x) %}fa({{ x }}){% endmacro %}",
	"b/lib":   "{% macro f(x) %}fb({{ x }}){% endmacro %}",
	"a/m":     "{% import './lib' as L %}{{ tick() }}{{ L.f(v) }}",
	"b/m":     "{% from './lib' import f %}{{ tick() }}{{ f(v) }}",
	"plain":   "{% for i in l %}{{ i|upper }}{{ tick() }}{% endfor %}{{ m.k }}{{ p.Name }}{{ v }}",
	"inc2":    "{% include 'plain' %}+{% include 'a/p' %}+{% include 'b/p' with {'q': v} only %}",
	// loop state read where it outlives the loop body that set it: after an inner loop, after the loop itself,
	// inside an included template and inside a macro called from the body
	"loops": "{% for a in l %}{% for b in l %}{{ b }}{{ tick() }}{% endfor %}{% if not loop.last %},{% endif %}{{ loop.index }}{{ tick() }}{% include 'a/p' %}{{ loop.revindex }}{% endfor %}{{ loop.length }}{{ tick() }}{% for k, x in m %}{{ loop.index0 }}{{ k }}{% endfor %}{{ loop.first ? 'F' : 'f' }}",
	// helpers with state of their own behind the operators: different patterns / formats in overlapping renders
	"rx1": "{{ v matches '/^[a-z]/' ? 'L' : 'l' }}{{ tick() }}{{ 'Abc' matches '/^a/i' ? 'I' : 'i' }}{{ p.Name matches '/n$/' ? 'N' : 'n' }}{{ tick() }}{{ 12345.678|number_format(2, '.', ',') }}{{ v|replace('a', 'b') }}",
	"rx2": "{{ v matches '/[0-9]$/' ? 'D' : 'd' }}{{ tick() }}{{ 'Abc' matches '/^a/' ? 'I' : 'i' }}{{ 'xyz' matches '/^x/' ? 'X' : 'x' }}{{ tick() }}{{ 0.5|number_format(1, ',', '.') }}{{ v|replace('v', 'w') }}{{ '%s=%d'|format(v, 3) }}",
	// literals (a shared tree must not remember what one render made of them) and macro parameter defaults, which
	// are evaluated in the caller's context on every call
	"a/lib2":  "{% macro g(x, pre = v, n = l|length) %}{{ pre }}:{{ x }}:{{ n }}{{ tick() }}{% endmacro %}{% macro h(q = m.k ~ '!') %}{{ q }}{% endmacro %}",
	"lits":    "{% import 'a/lib2' as L %}{% for i in [1, 2, 3] %}{{ i }}{{ tick() }}{% endfor %}{{ ['a', 'b']|join('-') }}{{ {'k': 1, 'j': 'x'}|keys|join(',') }}{{ L.g('x') }}{{ tick() }}{{ L.h() }}{{ L.g(v, 'p') }}{{ 'b' in ['a', 'b'] ? 'in' : 'out' }}{{ [1.5, 'z', true]|length }}{{ ['x', 'y']|first }}{{ tick() }}{{ L.h() }}",
	"hot":     "H0:{{ v }}{{ tick() }}",
	"opt":     "[{% include 'late' ignore missing %}]{{ tick() }}",
	"fsdoc":   "H0:{{ tick() }}",
	"sbox":    "S[{% include 'sbinner' sandboxed %}]{{ v }}",
	"sbinner": "{{ tick() }}{{ v|upper }}{{ tick() }}{{ p.Name }}{{ tick() }}",
	"nosb":    "{{ v|spaceless }}{{ tick() }}{{ cycle(l, 1) }}{{ '<i>x</i>'|striptags|format }}{{ p.Greeting }}",
	"long":    "{% set t = v ~ '!' %}{% if l|length > 2 %}{{ l|join(',') }}{% else %}no{% endif %}{{ tick() }}{{ t|upper }}{% for k, x in m %}{{ k }}={{ x }};{% endfor %}" + strings.Repeat("<p>text {{ v }}</p>", 20),
}

type propC02 struct{}

func init() { register(propC02{}) }

func (propC02) ID() string    { return "C02" }
func (propC02) Race() bool    { return true }
func (propC02) Level() string { return "exploration" }
func (propC02) Rule() string {
	return "one run = 2-4 caller tasks on one configured engine (cache on / off / auto-reload; ArrayLoader, FileSystemLoader on the simulated disk, or ChainLoader; templates in several directories whose include/extends/import/from use ./ and ../ names resolving to different files per directory; some names preloaded, others first-loaded concurrently), each task performing 1-4 calls out of Render, RenderTo (writer yields on every write), Load, ParseTemplate+Render, RegisterString of fresh names, render of a shared parsed *Template; interleaved by the seeded baton scheduler (preemption probability 1/8…1/512 per yield point or PCT-style fixed preemption steps; yield points at every function entry, every statement touching shared state, every pool/lock/FS seam and inside callbacks). Oracles: Go race detector (deterministic under the baton), every call's result equals the one precomputed serially on a pristine engine, no deadlock, no panic. distinct = distinct event-log hash; non-trivial = at least two task switches happened; interleavings = distinct (step, task) switch sequences"
}
func (propC02) Assumptions() []string {
	return []string{
		"scheduler hand-off is invisible to the race detector (RaceDisable + norace scheduler state): reported races are unordered accesses of twig itself; pool Put→Get edges are per object",
		"the race detector keeps a bounded access history per location (history_size=4): a race whose accesses are very far apart can be missed",
		"not demanded: atomicity of one render across several template loads while another task re-registers one of them; concurrent reconfiguration (the property starts 'once an engine is configured')",
		"map iteration order pinned to sorted; pools lifo (most hostile) or random",
	}
}
func (propC02) MainFaults() []string { return []string{"preempt", "calls_checked"} }

func (propC02) Decode(raw []byte) (interface{}, error) {
	var sc c02Sc
	err := json.Unmarshal(raw, &sc)
	return &sc, err
}

func (propC02) Gen(seed uint64, ex map[string]bool) interface{} {
	r := newR(seed)
	sc := &c02Sc{WorldSeed: simrt.Mix(seed, 2)}
	sc.Cache = pick(r, []string{"on", "on", "off", "autoreload"})
	sc.Loader = pick(r, []string{"array", "fs", "fs", "chain"})
	sc.Pool = pick(r, []int{simrt.PoolLIFO, simrt.PoolLIFO, simrt.PoolRandom})
	sc.Debug = r.P(5)
	names := make([]string, 0, len(c02Site))
	for n := range c02Site {
		names = append(names, n)
	}
	sort.Strings(names)
	if r.P(60) {
		g := genProgram(r, Feat{Include: true, Inherit: r.P(50), Macros: r.P(50), MapLoops: true})
		for _, t := range g.Templates {
			t.Name = "g/" + t.Name
			for i := range t.Segs {
				for _, t2 := range g.Templates {
					t.Segs[i] = strings.ReplaceAll(t.Segs[i], "'"+t2.Name+"'", "'g/"+t2.Name+"'")
				}
			}
			sc.Extra = append(sc.Extra, t)
		}
		names = append(names, "g/"+g.Main)
	}
	for _, n := range names {
		if r.P(35) {
			sc.Preload = append(sc.Preload, n)
		}
	}
	renderable := []string{"a/x", "b/y", "a/sub/z", "b/w", "a/m", "b/m", "plain", "inc2", "long", "a/p", "b/p", "sbox", "nosb", "sbox", "nosb", "loops", "loops", "rx1", "rx2", "rx1", "rx2", "lits", "lits"}
	if ex["relative-names"] {
		renderable = []string{"plain", "inc2", "long", "a/p", "b/p", "sbox", "nosb", "loops", "rx1", "rx2", "lits"}
	}
	if len(sc.Extra) > 0 {
		renderable = append(renderable, names[len(names)-1])
	}
	nt := r.Range(2, 4)
	maxCalls := 4
	if ex["tier:thorough"] {
		nt = r.Range(2, 6)
		maxCalls = 6
	}
	hot := r.P(35) && !ex["conflicting-registration"]
	late := r.P(40)
	fsdoc := sc.Cache == "autoreload" && sc.Loader == "fs" && r.P(60)
	if fsdoc {
		hot, late = true, false
	}
	sharedCtx := r.P(25)
	for t := 0; t < nt; t++ {
		var ops []c02Op
		n := r.Range(1, maxCalls)
		for i := 0; i < n; i++ {
			v := fmt.Sprintf("t%d_%d", t, i)
			if sharedCtx && r.P(60) {
				v = "shared"
			}
			if hot && r.P(65) {
				// conflicting versions of one name: checked for linearizability, not against a fixed expectation
				ver := t*10 + i + 1
				switch {
				case fsdoc && r.P(40):
					// "another process" rewrites the file (newer mtime) while other tasks render it
					ops = append(ops, c02Op{K: "writefs", Name: "fsdoc", Src: fmt.Sprintf("H%d:{{ tick() }}", ver), V: v})
				case fsdoc:
					ops = append(ops, c02Op{K: "renderhot", Name: "fsdoc", V: v})
				case late && r.P(45):
					// a name that no loader has, included with `ignore missing`, gets registered concurrently
					ops = append(ops, c02Op{K: "reghot", Name: "late", Src: fmt.Sprintf("H%d:", ver), V: v})
				case late:
					ops = append(ops, c02Op{K: "renderhot", Name: "opt", V: v})
				case r.P(45):
					ops = append(ops, c02Op{K: "reghot", Name: "hot", Src: fmt.Sprintf("H%d:{{ v }}{{ tick() }}", ver), V: v})
				default:
					ops = append(ops, c02Op{K: "renderhot", Name: "hot", V: v})
				}
				continue
			}
			switch c := r.N(20); {
			case c < 10:
				ops = append(ops, c02Op{K: "render", Name: pick(r, renderable), V: v})
			case c < 13:
				ops = append(ops, c02Op{K: "renderto", Name: pick(r, renderable), V: v})
			case c < 15:
				ops = append(ops, c02Op{K: "load", Name: pick(r, renderable)})
			case c < 17:
				src := fmt.Sprintf("P%d:{{ v|upper }}{%% for i in l %%}{{ i }}{%% endfor %%}{{ tick() }}", r.N(3))
				if r.P(30) {
					// a source that fails in the tokenizer or in the parser: the error paths release pooled objects too
					src += pick(r, []string{"{{ unclosed", "{% if v", "{# open comment", "{% for %}", "{{ 1 + }}", "{% endif %}", "{% block %}x"})
				}
				ops = append(ops, c02Op{K: "parse", Src: src, V: v})
			case c < 19:
				src := fmt.Sprintf("R%d_%d:{{ v }}{{ tick() }}", t, i)
				if r.P(25) {
					src += pick(r, []string{"{{ unclosed", "{% if v", "{# open comment", "{% for %}", "{{ 1 + }}"})
				}
				ops = append(ops, c02Op{K: "register", Name: fmt.Sprintf("reg/t%d_%d", t, i), Src: src, V: v})
			default:
				ops = append(ops, c02Op{K: "shared", V: v})
			}
		}
		sc.Tasks = append(sc.Tasks, ops)
	}
	if r.P(30) {
		// PCT-style: a few preemptions at fixed steps
		n := r.Range(1, 4)
		for i := 0; i < n; i++ {
			sc.PCT = append(sc.PCT, int64(r.N(6000))+1)
		}
		sort.Slice(sc.PCT, func(i, j int) bool { return sc.PCT[i] < sc.PCT[j] })
	} else {
		sc.PreemptDen = pick(r, []int{8, 32, 128, 512})
	}
	return sc
}

const c02Shared = "S:{{ v }}{% for i in l %}{{ i }}{{ tick() }}{% endfor %}{{ m.k|upper }}"

// c02SharedCtx is ONE context object that several tasks pass to their calls at the same time (a read-only value
// shared by goroutines is ordinary use: the engine has no business writing to it). Rebuilt for every run.
var c02SharedCtx map[string]interface{}

func c02Ctx(v string) map[string]interface{} {
	if v == "shared" {
		if c02SharedCtx == nil {
			c02SharedCtx = map[string]interface{}{"v": "shared", "l": []interface{}{"a", "b", "c"}, "m": map[string]interface{}{"k": "kv", "j": 2}, "p": &Person{Name: "Pshared"}}
		}
		return c02SharedCtx
	}
	return map[string]interface{}{"v": v, "l": []interface{}{"a", "b", "c"}, "m": map[string]interface{}{"k": "kv", "j": 2}, "p": &Person{Name: "P" + v}}
}

// c02Engine builds the configured engine. The file system content is written through the harness side
// of the simulated disk before any task exists.
func c02Engine(sc *c02Sc, w *simrt.World) *twig.Engine {
	e := twig.New()
	installSandbox(e)
	installGlobals(e)
	site := map[string]string{}
	for k, v := range c02Site {
		site[k] = v
	}
	for _, t := range sc.Extra {
		site[t.Name] = t.Src()
	}
	names := make([]string, 0, len(site))
	for n := range site {
		names = append(names, n)
	}
	sort.Strings(names)
	switch sc.Loader {
	case "array":
		e.RegisterLoader(twig.NewArrayLoader(site))
	case "fs":
		for _, n := range names {
			w.FSWrite("root/"+n+".twig", []byte(site[n]), w.NowNS()-5e9)
		}
		e.RegisterLoader(twig.NewFileSystemLoader([]string{"root"}))
	default:
		half1, half2 := map[string]string{}, map[string]string{}
		for i, n := range names {
			if i%2 == 0 {
				half1[n] = site[n]
			} else {
				half2[n] = site[n]
			}
		}
		e.RegisterLoader(twig.NewChainLoader([]twig.Loader{twig.NewArrayLoader(half1), twig.NewArrayLoader(half2)}))
	}
	e.AddFunction("tick", func(args ...interface{}) (interface{}, error) {
		simrt.Yield()
		return "", nil
	})
	switch sc.Cache {
	case "off":
		e.SetCache(false)
	case "autoreload":
		e.SetAutoReload(true)
	}
	if sc.Debug {
		e.SetDebug(true)
	}
	return e
}

func c02Do(e *twig.Engine, shared *twig.Template, op c02Op) Obs {
	switch op.K {
	case "render":
		return observe(nil, func() (string, error) { return e.Render(op.Name, c02Ctx(op.V)) })
	case "renderto":
		return observe(nil, func() (string, error) {
			var yw yieldWriter
			if err := e.RenderTo(&yw, op.Name, c02Ctx(op.V)); err != nil {
				return "", err
			}
			return yw.sb.String(), nil
		})
	case "load":
		return observe(nil, func() (string, error) {
			t, err := e.Load(op.Name)
			if err != nil {
				return "", err
			}
			n, src, _, _ := twig.VerifTemplateMeta(t)
			return n + "\x00" + src, nil
		})
	case "parse":
		return observe(nil, func() (string, error) {
			t, err := e.ParseTemplate(op.Src)
			if err != nil {
				return "", err
			}
			return t.Render(c02Ctx(op.V))
		})
	case "register":
		return observe(nil, func() (string, error) {
			if err := e.RegisterString(op.Name, op.Src); err != nil {
				return "", err
			}
			return e.Render(op.Name, c02Ctx(op.V))
		})
	case "shared":
		return observe(nil, func() (string, error) { return shared.Render(c02Ctx(op.V)) })
	case "writefs":
		return observe(nil, func() (string, error) {
			w := simrt.W
			w.AdvanceClock(2e9) // strictly newer modification time (second granularity)
			w.FSWrite("root/"+op.Name+".twig", []byte(op.Src), w.NowNS())
			simrt.Yield()
			return "", nil
		})
	case "reghot":
		return observe(nil, func() (string, error) { return "", e.RegisterString(op.Name, op.Src) })
	case "renderhot":
		return observe(nil, func() (string, error) { return e.Render(op.Name, c02Ctx(op.V)) })
	}
	return Obs{Class: "error", Err: "unknown op"}
}

func (propC02) Run(scI interface{}) *Outcome {
	sc := scI.(*c02Sc)
	o := &Outcome{Probes: map[string]int64{}}
	w := simrt.Begin(simrt.Config{Seed: sc.WorldSeed, PoolPolicy: sc.Pool, MapOrder: simrt.OrderSorted, ClockStart: 1_700_000_000e9, ClockStep: 1e6,
		PreemptDen: sc.PreemptDen, PCTSteps: sc.PCT, Explicit: sc.Explicit, Schedule: sc.Schedule})
	defer simrt.End()
	c02SharedCtx = nil
	c02Ctx("shared") // built here, before any task exists
	w.UseSimFS()
	twig.SetDebugWriter(io.Discard)
	saved := twig.VerifSwapGlobals(nil)
	defer twig.VerifSwapGlobals(saved)
	// serial expectation on a pristine engine (registered-with-cache-off is the one op whose serial result
	// is "not found"; it is computed the same way)
	expect := make([][]Obs, len(sc.Tasks))
	func() {
		w.EnterPristine()
		defer w.LeavePristine()
		// the expectations must not warm the process-wide caches (attribute cache, string cache): the
		// concurrent phase has to start cold, as a fresh process would
		coldGlobals := twig.VerifSwapGlobals(nil)
		defer twig.VerifSwapGlobals(coldGlobals)
		for t, ops := range sc.Tasks {
			for _, op := range ops {
				pe := c02Engine(sc, w)
				ps, _ := pe.ParseTemplate(c02Shared)
				expect[t] = append(expect[t], c02Do(pe, ps, op))
			}
		}
	}()
	e := c02Engine(sc, w)
	shared, _ := e.ParseTemplate(c02Shared)
	for _, n := range sc.Preload {
		e.Load(n)
	}
	nt := len(sc.Tasks)
	got := make([][]Obs, nt)
	type stamp struct{ call, ret int64 }
	stamps := make([][]stamp, nt)
	for t := 0; t < nt; t++ {
		t := t
		got[t] = make([]Obs, 0, len(sc.Tasks[t]))
		stamps[t] = make([]stamp, 0, len(sc.Tasks[t]))
		w.Go(func() {
			for _, op := range sc.Tasks[t] {
				call := w.Tick() // global event sequence numbers: unique, totally ordered
				ob := c02Do(e, shared, op)
				got[t] = append(got[t], ob)
				stamps[t] = append(stamps[t], stamp{call, w.Tick()})
			}
		})
	}
	ab := w.RunTasks()
	o.FP = w.Fingerprint()
	o.Inter = w.SwitchHash()
	o.Stats = w.Stat
	o.SimNS = w.NowNS() - 1_700_000_000e9
	o.Taken = w.Taken()
	o.Nontrivial = w.Switches() > 2
	if ab != "" {
		o.Poisoned = true
		o.Viol = &Violation{Oracle: "liveness", Sig: ab + " among concurrent calls", Detail: "run aborted: " + ab + "; tasks: " + c02Text(sc)}
		return o
	}
	for t := 0; t < nt; t++ {
		if p := w.TaskPanic(t); p != nil {
			o.Viol = &Violation{Oracle: "no-lost-call", Sig: "task panicked outside a call", Detail: fmt.Sprint(p)}
			return o
		}
		for i, op := range sc.Tasks[t] {
			o.Probes["calls_checked"]++
			if i >= len(got[t]) {
				o.Viol = &Violation{Oracle: "no-lost-call", Sig: "call never returned", Detail: fmt.Sprintf("task %d op %d %+v", t, i, op)}
				return o
			}
			g, x := got[t][i], expect[t][i]
			if op.K == "reghot" || op.K == "renderhot" || op.K == "writefs" {
				continue // order-dependent: judged by the linearizability check below
			}
			if g.Key() != x.Key() {
				kind := op.K
				detail := ""
				if g.Class == "ok" && x.Class == "ok" {
					detail = " (output differs)"
					for _, other := range []string{"PA", "PB", "<A", "<B", "fa(", "fb("} {
						if strings.Contains(g.Out, other) && !strings.Contains(x.Out, other) {
							detail = " (output contains material of another directory's template)"
						}
					}
				}
				o.Viol = &Violation{Oracle: "serial-equivalence", Sig: fmt.Sprintf("concurrent %s returned %s, serial execution returns %s%s", kind, g.Class, x.Class, detail),
					Detail: fmt.Sprintf("task %d call %d %+v (cache=%s loader=%s)\n concurrent: %s\n serial:     %s\n tasks: %s", t, i, op, sc.Cache, sc.Loader, g, x, c02Text(sc))}
				return o
			}
		}
	}
	// O3: histories with conflicting registrations of one name must be linearizable
	var hist []porcupine.Operation
	for t := 0; t < nt; t++ {
		for i, op := range sc.Tasks[t] {
			if op.K != "reghot" && op.K != "renderhot" && op.K != "writefs" {
				continue
			}
			if (op.K == "writefs" || op.Name == "fsdoc") && !(sc.Cache == "autoreload" && sc.Loader == "fs") {
				continue // a file rewrite is only specified to become visible under auto-reload with the fs loader
			}
			in := hotIn{Reg: op.K == "reghot" || op.K == "writefs"}
			out := -1
			if in.Reg {
				in.Ver = hotVer(op.Src)
				if got[t][i].Class == "ok" {
					out = 0
				}
			} else if got[t][i].Class == "ok" && op.Name == "opt" {
				switch g := got[t][i].Out; {
				case g == "[]":
					out = 0
				case strings.HasPrefix(g, "[H") && strings.HasSuffix(g, ":]"):
					out = hotVer(g[1:])
				default:
					out = -2
				}
			} else if got[t][i].Class == "ok" && op.Name == "fsdoc" {
				out = hotVer(got[t][i].Out)
				if got[t][i].Out != fmt.Sprintf("H%d:", out) {
					out = -2
				}
			} else if got[t][i].Class == "ok" {
				out = hotVer(got[t][i].Out)
				if got[t][i].Out != fmt.Sprintf("H%d:%s", out, op.V) {
					out = -2 // torn / foreign output
				}
			}
			hist = append(hist, porcupine.Operation{ClientId: t, Input: in, Call: stamps[t][i].call, Output: out, Return: stamps[t][i].ret})
		}
	}
	if len(hist) > 0 {
		o.Probes["linearizability_histories"]++
		o.Probes["linearizability_ops"] += int64(len(hist))
		model := porcupine.Model{
			Init: func() interface{} { return 0 },
			Step: func(state, input, output interface{}) (bool, interface{}) {
				in, st, out := input.(hotIn), state.(int), output.(int)
				if in.Reg {
					if out != 0 {
						return false, st
					}
					return true, in.Ver
				}
				if sc.Cache == "off" {
					// caching disabled: the text says both "use the source most recently registered" and "every call
					// re-reads the loaders"; either the loaders' version (0) or the registered one is admissible
					return out == 0 || out == st, st
				}
				return out == st, st
			},
		}
		switch porcupine.CheckOperationsTimeout(model, hist, 5*time.Second) {
		case porcupine.Illegal:
			var lines []string
			for _, h := range hist {
				lines = append(lines, fmt.Sprintf("T%d [%d,%d] %+v -> %v", h.ClientId, h.Call, h.Return, h.Input, h.Output))
			}
			o.Viol = &Violation{Oracle: "linearizability", Sig: "register/render history of one name is not linearizable",
				Detail: fmt.Sprintf("cache=%s loader=%s; operations (task [call,return] input -> observed version; -1 = error):\n %s\n tasks: %s", sc.Cache, sc.Loader, strings.Join(lines, "\n "), c02Text(sc))}
			return o
		case porcupine.Unknown:
			o.Probes["linearizability_inconclusive"]++
		}
	}
	o.Sample = map[string]interface{}{"cache": sc.Cache, "loader": sc.Loader, "tasks": c02Text(sc), "switches": w.Switches(), "yields": w.Stat[simrt.StYield], "preempt_den": sc.PreemptDen, "pct": sc.PCT}
	return o
}

type hotIn struct {
	Reg bool
	Ver int
}

var reHot = regexp.MustCompile(`^H([0-9]+):`)

func hotVer(s string) int {
	m := reHot.FindStringSubmatch(s)
	if m == nil {
		return -3
	}
	v, _ := strconv.Atoi(m[1])
	return v
}

func c02Text(sc *c02Sc) string {
	var parts []string
	for t, ops := range sc.Tasks {
		var s []string
		for _, op := range ops {
			if op.Name != "" {
				s = append(s, op.K+"("+op.Name+")")
			} else {
				s = append(s, op.K)
			}
		}
		parts = append(parts, fmt.Sprintf("T%d: %s", t, strings.Join(s, ", ")))
	}
	return strings.Join(parts, " | ")
}

func (propC02) WithSchedule(scI interface{}, sched []simrt.SchedEntry) interface{} {
	sc := scI.(*c02Sc)
	b, _ := json.Marshal(sc)
	var c c02Sc
	json.Unmarshal(b, &c)
	c.Explicit = true
	c.Schedule = sched
	c.PreemptDen = 0
	c.PCT = nil
	return &c
}

func (propC02) ScheduleOf(scI interface{}) ([]simrt.SchedEntry, bool) {
	sc := scI.(*c02Sc)
	return sc.Schedule, sc.Explicit
}

func (propC02) Shrink(scI interface{}) []interface{} {
	sc := scI.(*c02Sc)
	var out []interface{}
	clone := func() *c02Sc {
		b, _ := json.Marshal(sc)
		var c c02Sc
		json.Unmarshal(b, &c)
		return &c
	}
	if sc.Explicit {
		// schedule minimisation: drop chunks of decisions
		n := len(sc.Schedule)
		for size := n / 2; size >= 1; size /= 2 {
			for at := 0; at+size <= n; at += size {
				c := clone()
				c.Schedule = append(c.Schedule[:at], c.Schedule[at+size:]...)
				out = append(out, c)
			}
		}
		return out
	}
	if len(sc.Tasks) > 2 {
		for t := range sc.Tasks {
			c := clone()
			c.Tasks = append(c.Tasks[:t], c.Tasks[t+1:]...)
			out = append(out, c)
		}
	}
	for t, ops := range sc.Tasks {
		if len(ops) > 1 {
			for i := range ops {
				c := clone()
				c.Tasks[t] = append(c.Tasks[t][:i], c.Tasks[t][i+1:]...)
				out = append(out, c)
			}
		}
	}
	if len(sc.Extra) > 0 {
		c := clone()
		c.Extra = nil
		for t := range c.Tasks {
			for i := range c.Tasks[t] {
				if strings.HasPrefix(c.Tasks[t][i].Name, "g/") {
					c.Tasks[t][i].Name = "plain"
				}
			}
		}
		out = append(out, c)
	}
	if len(sc.Preload) > 0 {
		c := clone()
		c.Preload = nil
		out = append(out, c)
	}
	if sc.Debug {
		c := clone()
		c.Debug = false
		out = append(out, c)
	}
	usesFS := false
	for _, ops := range sc.Tasks {
		for _, op := range ops {
			if op.K == "writefs" || op.Name == "fsdoc" {
				usesFS = true // these operations only mean something with the fs loader under auto-reload
			}
		}
	}
	if sc.Loader != "array" && !usesFS {
		c := clone()
		c.Loader = "array"
		out = append(out, c)
	}
	if sc.Cache != "on" && !usesFS {
		c := clone()
		c.Cache = "on"
		out = append(out, c)
	}
	return out
}

package main

import (
	"flag"
	"fmt"
	"os"
	"regexp"
	"sort"
	"strings"

	"github.com/semihalev/twig"
	"simrt"
)

func init() {
	extraCmds["genstats"] = func(args []string) {
		fs := flag.NewFlagSet("genstats", flag.ExitOnError)
		n := fs.Int("n", 2000, "")
		errPct := fs.Int("errors", 0, "")
		show := fs.Int("show", 25, "")
		prop := fs.String("prop", "", "use this property's own program generator")
		grep := fs.String("grep", "", "print every template of the first program whose error contains this")
		fs.Parse(args)
		num := regexp.MustCompile(`[0-9]+`)
		counts := map[string]int{}
		example := map[string]string{}
		classes := map[string]int{}
		for i := 0; i < *n; i++ {
			r := newR(uint64(i) + 77)
			f := Feat{Spies: true, MapLoops: true, Include: r.P(70), Inherit: r.P(50), Macros: r.P(50), ErrorsPct: *errPct, Dashes: true}
			var p *Program
			switch *prop {
			case "C03":
				p = propC03{}.Gen(uint64(i)+77, map[string]bool{"print-struct-with-nested-pointer": true}).(*c03Sc).Prog
			case "C14":
				p = propC14{}.Gen(uint64(i)+77, map[string]bool{}).(*c14Sc).Prog
			case "C16":
				p = propC16{}.Gen(uint64(i)+77, map[string]bool{}).(*c16Sc).Prog
			case "C17":
				p = propC17{}.Gen(uint64(i)+77, map[string]bool{}).(*c17Sc).Prog
			default:
				p = genProgram(r, f)
			}
			w := simrt.Begin(simrt.Config{Seed: 1, PoolPolicy: simrt.PoolFresh})
			_ = w
			e := twig.New()
			hub := &spyHub{per: []*Spies{newSpies()}}
			installSpies(e, hub)
			var regErr error
			for _, t := range p.Templates {
				if err := e.RegisterString(t.Name, t.Src()); err != nil {
					regErr = fmt.Errorf("register %s: %w", t.Name, err)
				}
			}
			o := observe(hub.per[0], func() (string, error) { return e.Render(p.Main, BuildCtx(p.Ctx, 0)) })
			simrt.End()
			classes[o.Class]++
			if o.Class != "ok" {
				msg := o.Err
				if regErr != nil {
					msg = regErr.Error()
				}
				if len(msg) > 160 {
					msg = msg[:160]
				}
				if *grep != "" && strings.Contains(msg, *grep) {
					for n, src := range p.Sources() {
						fmt.Printf("--- %s\n%s\n", n, src)
					}
					fmt.Println("error:", msg)
					os.Exit(0)
				}
				k := num.ReplaceAllString(msg, "N")
				counts[k]++
				if _, ok := example[k]; !ok {
					example[k] = p.Sources()[p.Main]
				}
			}
		}
		fmt.Println(classes)
		type kv struct {
			k string
			n int
		}
		var l []kv
		for k, n := range counts {
			l = append(l, kv{k, n})
		}
		sort.Slice(l, func(i, j int) bool { return l[i].n > l[j].n })
		for i, x := range l {
			if i >= *show {
				break
			}
			fmt.Printf("%5d %s\n      e.g. %q\n", x.n, x.k, tail(example[x.k], 300))
		}
		os.Exit(0)
	}
}

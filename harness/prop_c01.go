package main

import (
	"encoding/json"
	"fmt"
	"io"
	"os"
	"sort"
	"strings"

	"github.com/semihalev/twig"
	"simrt"
)

// C01 — rendering is repeatable and independent of everything rendered before.

type c01Op struct {
	K    string `json:"k"` // reg regbad rereg render renderto parse gc debug compile lonly lmiss alias hold renderheld
	E    int    `json:"e"`
	P    int    `json:"p"`
	Name string `json:"name,omitempty"`
	Src  string `json:"src,omitempty"`
	On   bool   `json:"on,omitempty"`
	Mode int    `json:"mode,omitempty"`
	CV   int    `json:"ctx_variant,omitempty"` // which variant of the program's context this render uses
	Rep  int    `json:"rep,omitempty"`         // render ops: this many further identical renders follow at once (a busy, long-lived engine)
}

type c01Sc struct {
	WorldSeed uint64     `json:"world_seed"`
	Pool      int        `json:"pool"`
	Drop      int        `json:"drop"`
	ClockStep int64      `json:"clock_step"`
	Engines   int        `json:"engines"`
	Progs     []*Program `json:"progs"`
	Ops       []c01Op    `json:"ops"`
	// RegOnly: registered templates exist in the engine only (no loader has a copy to fall back on)
	RegOnly bool `json:"registered_only,omitempty"`
	// AutoReload: the engines' loader reports modification times and auto-reload is on, so a template that came from the
	// loader follows later edits of the loader's copy (valid or not); a registered template does not
	AutoReload bool `json:"auto_reload,omitempty"`
	// FS2: the engines load through one FileSystemLoader with two search paths on the simulated disk; the second path
	// has other content under every name and a few names of its own
	FS2 bool `json:"fs_two_paths,omitempty"`
}

type propC01 struct{}

func init() { register(propC01{}) }

func (propC01) ID() string    { return "C01" }
func (propC01) Race() bool    { return false }
func (propC01) Level() string { return "exploration" }
func (propC01) Rule() string {
	return "one run = a seeded history of 5-40 engine operations (register, failing register, re-register, render, render-to-writer, parse+render, compile+load on another engine, debug toggles, cache off/on toggles, globals / functions / filters (re)registered in mid-history, GC of pools) over 1-3 engines, executed under a seeded sync.Pool policy (lifo/fifo/random, put-drop 0/12/50 %, gc faults); every render is compared with a pristine replica (fresh engine, never-recycling pools, empty process-wide caches) and after every operation every cached template tree must be unchanged and unreleased. distinct = distinct event-log hash (all seam decisions + observations); non-trivial = at least one pooled object was actually recycled before the last render"
}
func (propC01) Assumptions() []string {
	return []string{
		"the pristine replica (fresh engine, pool domain that never recycles, emptied process-wide caches) stands for 'a fresh process'; a sampled cross-check against a real fresh process built from the uninstrumented tree validates this",
		"simrt.Pool stays inside sync.Pool's contract (Get returns New() or an object previously Put and not handed out since)",
		"map iteration order pinned to sorted so the check does not depend on C03",
		"time/random dependent constructs are not generated",
	}
}
func (propC01) MainFaults() []string { return []string{"pool_reuse", "renders_compared"} }

func (propC01) Decode(raw []byte) (interface{}, error) {
	var sc c01Sc
	err := json.Unmarshal(raw, &sc)
	return &sc, err
}

func (propC01) Gen(seed uint64, ex map[string]bool) interface{} {
	r := newR(seed)
	sc := &c01Sc{WorldSeed: simrt.Mix(seed, 1)}
	sc.Pool = pick(r, []int{simrt.PoolLIFO, simrt.PoolLIFO, simrt.PoolFIFO, simrt.PoolRandom})
	sc.Drop = pick(r, []int{0, 0, 12, 50})
	sc.ClockStep = pick(r, []int64{0, 1e6, 1e9, 3600e9})
	sc.Engines = r.Range(1, 3)
	sc.RegOnly = r.P(40)
	sc.AutoReload = r.P(25)
	sc.FS2 = !sc.AutoReload && r.P(15)
	np := r.Range(1, 3)
	maxOps := 40
	if ex["tier:thorough"] {
		sc.Engines = r.Range(1, 4)
		np = r.Range(1, 4)
		maxOps = 120
	}
	for i := 0; i < np; i++ {
		f := Feat{Spies: true, MapLoops: true, Include: r.P(70), Inherit: r.P(50), Macros: r.P(50), ErrorsPct: 20, Dashes: true, Sandbox: true, SpyPrefix: fmt.Sprintf("p%d_", i), RelPaths: r.P(25)}
		sc.Progs = append(sc.Progs, genProgram(r, f))
	}
	for _, pr := range sc.Progs {
		for _, src := range pr.Sources() {
			if strings.Contains(src, "./") {
				// a directory aliases spellings (./x, x) that are different names for the replica's in-memory loader
				sc.FS2 = false
			}
		}
	}
	usesLate := false
	for _, pr := range sc.Progs {
		// callbacks that the application (re)registers in mid-history: some templates call them
		if t := &pr.Templates[r.N(len(pr.Templates))]; r.P(30) && !strings.Contains(t.Src(), "{% extends") {
			t.Segs = append(t.Segs, pick(r, []string{"{{ late_fn() }}", "{{ 'x'|late_f }}", "{{ late_fn() }}{{ late_fn()|late_f }}"}))
			usesLate = true
		}
	}
	nops := r.Range(5, maxOps)
	reg := map[[2]int]bool{}
	for i := 0; i < nops; i++ {
		e, p := r.N(sc.Engines), r.N(np)
		switch c := r.N(28); {
		case c < 4 || (!reg[[2]int{e, p}] && r.P(90)):
			k := "reg"
			if (sc.AutoReload || sc.FS2) && r.P(60) {
				k = "lonly" // auto-reload histories: most programs come from the loader, so that later edits matter
			}
			sc.Ops = append(sc.Ops, c01Op{K: k, E: e, P: p})
			reg[[2]int{e, p}] = true
		case c < 12:
			op := c01Op{K: pick(r, []string{"render", "render", "render", "renderto"}), E: e, P: p, CV: pick(r, []int{0, 0, 1, 2, 3})}
			if r.P(25) {
				// render some other template of the program directly (a base layout, a partial, the macro library)
				ts := sc.Progs[p].Templates
				op.Name = ts[r.N(len(ts))].Name
			}
			if r.P(6) {
				// a burst: limits, counters and free lists that only overflow after dozens of calls
				op.Rep = pick(r, []int{8, 17, 33, 40, 65, 70, 130})
			}
			sc.Ops = append(sc.Ops, op)
		case c < 13:
			sc.Ops = append(sc.Ops, c01Op{K: "regbad", E: e, Name: pick(r, []string{"main", "bad"}), Src: pick(r, []string{"{% if %}", "{{ 1 + }}", "{% for %}{% endfor %}", "{% block %}"})})
		case c < 15:
			pr := sc.Progs[p]
			t := pr.Templates[r.N(len(pr.Templates))]
			g := &gen{r: r, f: Feat{MapLoops: true}}
			sc.Ops = append(sc.Ops, c01Op{K: "rereg", E: e, P: p, Name: t.Name, Src: t.Src() + g.seg(1)})
		case c < 16:
			sc.Ops = append(sc.Ops, c01Op{K: "parse", E: e, P: p})
		case c < 18:
			sc.Ops = append(sc.Ops, c01Op{K: "gc", Mode: r.N(2)})
		case c < 19:
			sc.Ops = append(sc.Ops, c01Op{K: "debug", E: e, On: r.P(50)})
		case c < 20:
			sc.Ops = append(sc.Ops, c01Op{K: "compile", E: e, P: p})
		case c < 21:
			// make a program available through the loader only (no registration)
			sc.Ops = append(sc.Ops, c01Op{K: "lonly", E: e, P: p})
			reg[[2]int{e, p}] = true
		case c < 22:
			sc.Ops = append(sc.Ops, c01Op{K: "lmiss", E: e, Name: fmt.Sprintf("missing_%d", r.N(3)), Src: fmt.Sprintf("(late %d)", i)})
		case c < 23:
			// the same *Template registered under a second name, possibly on another engine
			pr := sc.Progs[p]
			sc.Ops = append(sc.Ops, c01Op{K: "alias", E: e, P: p, Name: pr.Templates[r.N(len(pr.Templates))].Name, Mode: r.N(sc.Engines)})
		case c < 24:
			pr := sc.Progs[p]
			sc.Ops = append(sc.Ops, c01Op{K: "hold", E: e, P: p, Name: pr.Templates[r.N(len(pr.Templates))].Name})
		case (c == 26 || c == 27) && sc.AutoReload:
			pr := sc.Progs[p]
			t := pr.Templates[r.N(len(pr.Templates))]
			src := t.Src() + fmt.Sprintf("<!-- edit %d -->", i)
			if r.P(35) {
				src = pick(r, []string{"{% if %}", "{{ 1 + }}", t.Src() + "{% endfor %}"})
			}
			sc.Ops = append(sc.Ops, c01Op{K: "ledit", E: e, P: p, Name: t.Name, Src: src})
		case c < 26 && c >= 25:
			// a busy engine: many other names registered or loaded meanwhile (bounded tables, eviction)
			sc.Ops = append(sc.Ops, c01Op{K: "flood", E: e, Mode: pick(r, []int{40, 130, 130, 260, 520})})
		case c < 25:
			// a global (re)defined in mid-history: later renders see the new value, earlier templates included
			sc.Ops = append(sc.Ops, c01Op{K: "setglobal", E: e, Name: pick(r, []string{"g1", "gn", "late", "fn:late_fn", "flt:late_f"}), Src: fmt.Sprintf("late-%d", i)})
		case c == 27 && !sc.AutoReload && r.P(50):
			// the cache switched off and on again (directly or through development mode) with nothing in between:
			// the engine's templates and configuration are what they were
			sc.Ops = append(sc.Ops, c01Op{K: "cachetoggle", E: e, Mode: r.N(2)})
		default:
			sc.Ops = append(sc.Ops, c01Op{K: "renderheld", E: e, P: p, CV: r.N(3)})
		}
	}
	if usesLate && r.P(70) {
		// … and the application does (re)register them somewhere in the second half of the history
		k := len(sc.Ops)/2 + r.N(len(sc.Ops)/2+1)
		op := c01Op{K: "setglobal", E: r.N(sc.Engines), Name: pick(r, []string{"fn:late_fn", "flt:late_f"}), Src: "swapped"}
		sc.Ops = append(sc.Ops[:k], append([]c01Op{op}, sc.Ops[k:]...)...)
	}
	return sc
}

type c01Engine struct {
	e      *twig.Engine
	loader c01Loader
	cur    map[string]string // model: last successfully registered source per name
	debug  bool
	hub    *spyHub
	base   map[*twig.Template]string // tree dump taken when the template was first seen in the cache
	held   []c01Held                 // *Template handles obtained from Load and kept by the "application"
	late   [][2]string               // globals (re)defined in mid-history, in order
}

type c01Held struct {
	t    *twig.Template
	src  string
	cur  map[string]string // the engine's templates when the handle was taken (for includes etc.)
	dump string
}

// c01Loader is what the history engines load from: an ArrayLoader, or (auto-reload histories) an in-memory loader
// whose every SetTemplate carries a newer modification time.
type c01Loader interface {
	twig.Loader
	SetTemplate(name, src string)
}

type c01TSLoader struct {
	src  map[string]string
	mt   map[string]int64
	tick int64
}

func (l *c01TSLoader) Load(name string) (string, error) {
	if s, ok := l.src[name]; ok {
		return s, nil
	}
	return "", fmt.Errorf("%w: %s", twig.ErrTemplateNotFound, name)
}
func (l *c01TSLoader) Exists(name string) bool { _, ok := l.src[name]; return ok }
func (l *c01TSLoader) SetTemplate(name, src string) {
	l.tick += 10
	l.src[name], l.mt[name] = src, 1_800_000_000+l.tick
}
func (l *c01TSLoader) GetModifiedTime(name string) (int64, error) {
	if t, ok := l.mt[name]; ok {
		return t, nil
	}
	return 0, fmt.Errorf("%w: %s", twig.ErrTemplateNotFound, name)
}

// c01FSLoader: templates live in directory p1 of the simulated disk; p2 shadows every name with other content.
type c01FSLoader struct {
	*twig.FileSystemLoader
	w      *simrt.World
	p1, p2 string // this engine's two directories
}

func (l *c01FSLoader) SetTemplate(name, src string) {
	l.w.FSWrite(l.p1+"/"+name+".twig", []byte(src), l.w.NowNS())
	l.w.FSWrite(l.p2+"/"+name+".twig", []byte("P2-SHADOW "+name), l.w.NowNS())
}

func newC01Engine(autoReload bool) *c01Engine {
	ce := &c01Engine{cur: map[string]string{}, base: map[*twig.Template]string{}, hub: &spyHub{per: []*Spies{newSpies()}}}
	ce.e = twig.New()
	if autoReload {
		ce.loader = &c01TSLoader{src: map[string]string{}, mt: map[string]int64{}}
		ce.e.SetAutoReload(true)
	} else {
		ce.loader = twig.NewArrayLoader(map[string]string{})
	}
	ce.e.RegisterLoader(ce.loader)
	installSpies(ce.e, ce.hub)
	return ce
}

// pristine builds the replica: a fresh engine holding the same templates and configuration.
func (ce *c01Engine) pristine() (*twig.Engine, *spyHub) {
	e := twig.New()
	m := make(map[string]string, len(ce.cur))
	names := make([]string, 0, len(ce.cur))
	for k, v := range ce.cur {
		m[k] = v
		names = append(names, k)
	}
	sort.Strings(names)
	e.RegisterLoader(twig.NewArrayLoader(m))
	hub := &spyHub{per: []*Spies{newSpies()}}
	installSpies(e, hub)
	if ce.debug {
		e.SetDebug(true)
	}
	for _, g := range ce.late {
		applyLate(e, g[0], g[1])
	}
	for _, n := range names {
		e.RegisterString(n, m[n])
	}
	return e, hub
}

// applyLate (re)defines a global, or with a fn:/flt: prefix a function / filter, in mid-history.
func applyLate(e *twig.Engine, name, val string) {
	switch {
	case strings.HasPrefix(name, "fn:"):
		e.AddFunction(name[3:], func(args ...interface{}) (interface{}, error) { return "<" + val + ">", nil })
	case strings.HasPrefix(name, "flt:"):
		e.AddFilter(name[4:], func(v interface{}, args ...interface{}) (interface{}, error) { return toStr(v) + "~" + val, nil })
	default:
		e.AddGlobal(name, val)
	}
}

func withPristine(w *simrt.World, f func()) {
	w.EnterPristine()
	old := twig.VerifSwapGlobals(nil)
	defer func() {
		twig.VerifSwapGlobals(old)
		w.LeavePristine()
	}()
	f()
}

func (propC01) Run(scI interface{}) (o *Outcome) {
	sc := scI.(*c01Sc)
	o = &Outcome{Probes: map[string]int64{}}
	w := simrt.Begin(simrt.Config{PreemptDen: 4, Seed: sc.WorldSeed, PoolPolicy: sc.Pool, PoolDropPct: sc.Drop, MapOrder: simrt.OrderSorted,
		ClockStart: 1_700_000_000e9, ClockStep: sc.ClockStep})
	defer simrt.End()
	defer underScheduler(w, o)()
	twig.SetDebugWriter(io.Discard)
	savedGlobals := twig.VerifSwapGlobals(nil) // every run starts from empty process-wide caches
	defer twig.VerifSwapGlobals(savedGlobals)
	if sc.FS2 {
		w.UseSimFS()
	}
	start := w.NowNS()
	engs := make([]*c01Engine, sc.Engines)
	for i := range engs {
		engs[i] = newC01Engine(sc.AutoReload)
		if sc.FS2 {
			// (a second loader in front of the in-memory one; the in-memory one stays empty in this flavour)
			p1, p2 := fmt.Sprintf("e%d_p1", i), fmt.Sprintf("e%d_p2", i)
			fl := &c01FSLoader{FileSystemLoader: twig.NewFileSystemLoader([]string{p1, p2}), w: w, p1: p1, p2: p2}
			w.FSWrite(p2+"/p2only.twig", []byte("only in the second path"), w.NowNS())
			engs[i].e = twig.New()
			engs[i].loader = fl
			engs[i].e.RegisterLoader(fl)
			installSpies(engs[i].e, engs[i].hub)
		}
	}
	fail := func(or, sig, detail string) *Outcome {
		o.Viol = &Violation{Oracle: or, Sig: sig, Detail: detail}
		return o
	}
	defer func() {
		o.FP = w.Fingerprint()
		o.Stats = w.Stat
		o.SimNS = w.NowNS() - start
	}()
	reuseBefore := int64(0)
	for oi, op := range sc.Ops {
		if op.E >= len(engs) {
			continue
		}
		ce := engs[op.E]
		var pr *Program
		if op.P < len(sc.Progs) {
			pr = sc.Progs[op.P]
		}
		w.Note("op."+op.K, oi)
		switch op.K {
		case "reg":
			for _, t := range pr.Templates {
				src := t.Src()
				if err := ce.e.RegisterString(t.Name, src); err == nil {
					ce.cur[t.Name] = src
					if !sc.RegOnly {
						ce.loader.SetTemplate(t.Name, src)
					}
				}
			}
		case "regbad":
			if err := ce.e.RegisterString(op.Name, op.Src); err == nil {
				ce.cur[op.Name] = op.Src
				if !sc.RegOnly {
					ce.loader.SetTemplate(op.Name, op.Src)
				}
			}
		case "rereg":
			if err := ce.e.RegisterString(op.Name, op.Src); err == nil {
				ce.cur[op.Name] = op.Src
				if !sc.RegOnly {
					ce.loader.SetTemplate(op.Name, op.Src)
				}
			}
		case "lonly":
			for _, t := range pr.Templates {
				src := t.Src()
				if _, err := twig.New().ParseTemplate(src); err == nil { // same acceptance rule as a registration
					ce.cur[t.Name] = src
					ce.loader.SetTemplate(t.Name, src)
					// an entry cached earlier under this name stays authoritative (auto-reload is off): only
					// names the engine has not cached yet are affected
					if old, ok := twig.VerifCached(ce.e)[t.Name]; ok {
						_, osrc, _, oldLoader := twig.VerifTemplateMeta(old)
						if !(sc.AutoReload && oldLoader != nil) { // (under auto-reload an entry that came from the loader follows it)
							ce.cur[t.Name] = osrc
							ce.loader.SetTemplate(t.Name, osrc)
						}
					}
				}
			}
		case "lmiss":
			if sc.FS2 {
				ce.e.Load("p2only") // a load that the SECOND search path serves
				ce.cur["p2only"] = "only in the second path"
			}
			if old, cached := twig.VerifCached(ce.e)[op.Name]; !cached {
				ce.cur[op.Name] = op.Src
				ce.loader.SetTemplate(op.Name, op.Src)
			} else if _, _, _, oldLoader := twig.VerifTemplateMeta(old); sc.AutoReload && oldLoader != nil {
				ce.cur[op.Name] = op.Src
				ce.loader.SetTemplate(op.Name, op.Src)
			}
		case "ledit":
			// somebody edits the loader's copy of a template (auto-reload histories only); the new version may not parse
			if !sc.AutoReload {
				break
			}
			old, cached := twig.VerifCached(ce.e)[op.Name]
			registered := false
			if cached {
				_, _, _, oldLoader := twig.VerifTemplateMeta(old)
				registered = oldLoader == nil
			}
			if _, known := ce.cur[op.Name]; !known && !cached {
				break
			}
			ce.loader.SetTemplate(op.Name, op.Src)
			if !registered {
				ce.cur[op.Name] = op.Src
			}
			o.Probes["loader_edits"]++
		case "alias":
			if t, err := ce.e.Load(op.Name); err == nil {
				dst := engs[op.Mode%len(engs)]
				alias := "alias_of_" + op.Name
				dst.e.RegisterTemplate(alias, t)
				_, src, _, _ := twig.VerifTemplateMeta(t)
				dst.cur[alias] = src
				if !sc.RegOnly {
					dst.loader.SetTemplate(alias, src)
				}
			}
		case "hold":
			if t, err := ce.e.Load(op.Name); err == nil {
				_, src, _, _ := twig.VerifTemplateMeta(t)
				cp := map[string]string{}
				for k, v := range ce.cur {
					cp[k] = v
				}
				d, _ := twig.VerifTreeDump(t)
				ce.held = append(ce.held, c01Held{t: t, src: src, cur: cp, dump: d})
			}
		case "renderheld":
			if len(ce.held) == 0 {
				break
			}
			h := ce.held[len(ce.held)-1]
			ctx := BuildCtx(pr.Ctx.Variant(op.CV), 0)
			sp := newSpies()
			ce.hub.per[0] = sp
			got := observe(sp, func() (string, error) { return h.t.Render(ctx) })
			// the handle is the template as it was loaded: it renders its own source, with the engine's CURRENT
			// other templates (includes are resolved at render time)
			var want Obs
			withPristine(w, func() {
				pe, hub := ce.pristine()
				pt, err := pe.ParseTemplate(h.src)
				if err != nil {
					want = Obs{Class: "error", Err: err.Error()}
					return
				}
				want = observe(hub.per[0], func() (string, error) { return pt.Render(BuildCtx(pr.Ctx.Variant(op.CV), 0)) })
			})
			o.Probes["renders_compared"]++
			o.Probes["held_template_renders"]++
			if d, _ := twig.VerifTreeDump(h.t); d != h.dump {
				return fail("O2-cached-tree", "a loaded template's tree was altered after it was handed out",
					fmt.Sprintf("op #%d: template held since an earlier Load\n was: %s\n now: %s", oi, tail(h.dump, 500), tail(d, 500)))
			}
			relative := strings.Contains(h.src, "./")
			for _, other := range h.cur {
				// the replica parses the held source as a NAMELESS template; relative names anywhere below it would
				// resolve against a different starting point than in the named original
				relative = relative || strings.Contains(other, "./")
			}
			if got.Key() != want.Key() && !relative {
				return fail("O1-pristine-replica", "render of a template obtained from Load differs from its source on a fresh engine",
					fmt.Sprintf("op #%d engine %d\n held template source %q\n history engine: %s\n fresh engine:   %s", oi, op.E, tail(h.src, 300), got, want))
			}
		case "flood":
			// unrelated templates come and go on the same engine; they are nobody's dependency, so the replica does
			// not need them
			for k := 0; k < op.Mode; k++ {
				n := fmt.Sprintf("flood_%d_%d", oi, k)
				if k%2 == 0 {
					ce.e.RegisterString(n, "F{{ 1 + 1 }}")
				} else {
					ce.loader.SetTemplate(n, "L{{ 2 + 2 }}")
					ce.e.Load(n)
				}
			}
			o.Probes["flood_ops"]++
		case "setglobal":
			applyLate(ce.e, op.Name, op.Src)
			ce.late = append(ce.late, [2]string{op.Name, op.Src})
		case "cachetoggle":
			if op.Mode == 0 {
				ce.e.SetCache(false)
				ce.e.SetCache(true)
			} else {
				ce.e.SetDevelopmentMode(true)
				ce.e.SetDevelopmentMode(false)
				ce.debug = false
			}
			o.Probes["cache_toggles"]++
		case "gc":
			w.GC(op.Mode)
		case "debug":
			ce.e.SetDebug(op.On)
			ce.debug = op.On
		case "render", "renderto":
			prMain := pr.Main
			if op.Name != "" {
				prMain = op.Name
			}
			ctx := BuildCtx(pr.Ctx.Variant(op.CV), 0)
			sp := newSpies()
			ce.hub.per[0] = sp
			reuseBefore = w.Stat[simrt.StPoolReuse]
			var got Obs
			if op.K == "render" {
				got = observe(sp, func() (string, error) { return ce.e.Render(prMain, ctx) })
			} else {
				got = observe(sp, func() (string, error) {
					var yw yieldWriter
					err := ce.e.RenderTo(&yw, prMain, ctx)
					if err != nil {
						return "", err
					}
					return yw.sb.String(), nil
				})
			}
			var want Obs
			withPristine(w, func() {
				pe, hub := ce.pristine()
				pctx := BuildCtx(pr.Ctx.Variant(op.CV), 0)
				want = observe(hub.per[0], func() (string, error) { return pe.Render(prMain, pctx) })
			})
			o.Probes["renders_compared"]++
			o.Probes["class_"+want.Class]++
			w.Note("obs."+got.Class, int(strHash(got.Key())&0x7fffffff))
			if reuseBefore > 0 {
				o.Nontrivial = true
			}
			if got.Key() != want.Key() {
				return fail("O1-pristine-replica", fmt.Sprintf("render differs from fresh engine: history=%s fresh=%s", got.Class, want.Class),
					fmt.Sprintf("op #%d %s engine %d template %q\n history engine: %s\n fresh engine:   %s", oi, op.K, op.E, prMain, got, want))
			}
			for rep := 0; rep < op.Rep; rep++ {
				// identical calls in a row: every one of them must still equal the fresh engine's answer
				spr := newSpies()
				ce.hub.per[0] = spr
				again := observe(spr, func() (string, error) { return ce.e.Render(prMain, BuildCtx(pr.Ctx.Variant(op.CV), 0)) })
				o.Probes["burst_renders"]++
				if again.Key() != want.Key() {
					return fail("O1-pristine-replica", fmt.Sprintf("render differs from fresh engine: history=%s fresh=%s", again.Class, want.Class),
						fmt.Sprintf("op #%d %s engine %d template %q, identical call number %d in a row\n history engine: %s\n fresh engine:   %s", oi, op.K, op.E, prMain, rep+2, again, want))
				}
			}
			// O3: a sample is also rendered by a real fresh process built from the uninstrumented tree
			if os.Getenv("VERIF_ONESHOT") != "" && w.Choose(24, "o3.sample") == 0 {
				// (the fresh process runs the uninstrumented tree with Go's own map order; since C03's fixes the
				// engine's output no longer depends on it, so programs that consume maps are compared as well)
				if true {
					fresh, ok := runOneshot(&oneshotCase{Templates: ce.cur, Debug: ce.debug, Main: prMain, Ctx: pr.Ctx.Variant(op.CV), Late: ce.late})
					if !ok {
						o.Probes["o3_could_not_run"]++
					} else {
						o.Probes["o3_fresh_process_renders"]++
						if fresh.Key() != want.Key() {
							return fail("O3-fresh-process", fmt.Sprintf("fresh process (uninstrumented tree) disagrees: process=%s replica=%s", fresh.Class, want.Class),
								fmt.Sprintf("op #%d template %q\n fresh process: %s\n replica:       %s", oi, prMain, fresh, want))
						}
					}
				}
			}
		case "parse":
			src := pr.Templates[len(pr.Templates)-1].Src()
			ctx := BuildCtx(pr.Ctx, 0)
			sp := newSpies()
			ce.hub.per[0] = sp
			tpl, perr := ce.e.ParseTemplate(src)
			var got, got2 Obs
			if perr != nil {
				got = Obs{Class: "error", Err: perr.Error()}
				got2 = got
			} else {
				got = observe(sp, func() (string, error) { return tpl.Render(ctx) })
				sp2 := newSpies()
				ce.hub.per[0] = sp2
				got2 = observe(sp2, func() (string, error) { return tpl.Render(ctx) })
			}
			var want Obs
			withPristine(w, func() {
				pe, hub := ce.pristine()
				pt, err := pe.ParseTemplate(src)
				if err != nil {
					want = Obs{Class: "error", Err: err.Error()}
					return
				}
				pctx := BuildCtx(pr.Ctx, 0)
				want = observe(hub.per[0], func() (string, error) { return pt.Render(pctx) })
			})
			o.Probes["renders_compared"] += 2
			if got.Key() != want.Key() {
				return fail("O1-pristine-replica", fmt.Sprintf("parsed-template render differs from fresh engine: history=%s fresh=%s", got.Class, want.Class),
					fmt.Sprintf("op #%d parse engine %d\n history engine: %s\n fresh engine:   %s", oi, op.E, got, want))
			}
			if got2.Key() != want.Key() {
				return fail("O1-pristine-replica", fmt.Sprintf("second render of a parsed template differs: second=%s fresh=%s", got2.Class, want.Class),
					fmt.Sprintf("op #%d parse engine %d\n second render: %s\n fresh engine:  %s", oi, op.E, got2, want))
			}
		case "compile":
			// every template of the program is compiled and serialised first (all byte slices kept), then all of them
			// are handed to the other engine; what that engine must hold afterwards is what the SOURCE engine holds now
			dst := engs[(op.E+1)%len(engs)]
			type shipped struct {
				name string
				data []byte
			}
			var all []shipped
			for _, t := range pr.Templates {
				want, known := ce.cur[t.Name]
				if !known {
					continue
				}
				if _, err := twig.New().ParseTemplate(want); err != nil {
					continue
				}
				ct, err := ce.e.CompileTemplate(t.Name)
				if err != nil {
					continue
				}
				if data, err := twig.SerializeCompiledTemplate(ct); err == nil {
					all = append(all, shipped{t.Name, data})
				}
			}
			for _, sh := range all {
				if dst.e.LoadFromCompiledData(sh.data) == nil {
					dst.cur[sh.name] = ce.cur[sh.name]
					if !sc.RegOnly {
						dst.loader.SetTemplate(sh.name, ce.cur[sh.name])
					}
				}
			}
		}
		// O2: every cached template is unchanged and not released
		for ei, x := range engs {
			cached := twig.VerifCached(x.e)
			names := make([]string, 0, len(cached))
			for n := range cached {
				if strings.HasPrefix(n, "flood_") && strHash(n)%16 != uint64(oi%16) {
					continue // of the unrelated flood templates a rotating sixteenth is inspected per operation
				}
				names = append(names, n)
			}
			sort.Strings(names)
			for _, n := range names {
				t := cached[n]
				dump, ptrs := twig.VerifTreeDump(t)
				if b, ok := x.base[t]; !ok {
					x.base[t] = dump
				} else if b != dump {
					return fail("O2-cached-tree", "cached template tree altered",
						fmt.Sprintf("after op #%d %s: engine %d template %q\n was: %s\n now: %s", oi, op.K, ei, n, tail(b, 600), tail(dump, 600)))
				}
				for _, p := range ptrs {
					if w.IsPooled(p) {
						return fail("O2-cached-tree", "node of a cached template released to a pool",
							fmt.Sprintf("after op #%d %s: engine %d template %q has a node that was Put into a sync.Pool while still cached", oi, op.K, ei, n))
					}
				}
			}
		}
	}
	if o.Sample == nil {
		ks := make([]string, 0, len(sc.Ops))
		for _, op := range sc.Ops {
			ks = append(ks, fmt.Sprintf("%s@e%d", op.K, op.E))
		}
		o.Sample = map[string]interface{}{"pool": sc.Pool, "drop_pct": sc.Drop, "engines": sc.Engines, "ops": ks,
			"main_template": sc.Progs[0].Sources()[sc.Progs[0].Main], "pool_reuse": w.Stat[simrt.StPoolReuse]}
	}
	return o
}

func (propC01) Shrink(scI interface{}) []interface{} {
	sc := scI.(*c01Sc)
	var out []interface{}
	clone := func() *c01Sc {
		b, _ := json.Marshal(sc)
		var c c01Sc
		json.Unmarshal(b, &c)
		return &c
	}
	// drop chunks of ops, then single ops
	for size := len(sc.Ops) / 2; size >= 1; size /= 2 {
		for at := 0; at+size <= len(sc.Ops); at += size {
			c := clone()
			c.Ops = append(c.Ops[:at], c.Ops[at+size:]...)
			out = append(out, c)
		}
	}
	// shorter bursts
	for i, op := range sc.Ops {
		if op.Rep > 0 {
			for _, n := range []int{0, op.Rep / 2, op.Rep - 1} {
				if n < op.Rep {
					c := clone()
					c.Ops[i].Rep = n
					out = append(out, c)
				}
			}
		}
	}
	// drop template segments
	for pi, p := range sc.Progs {
		for ti, t := range p.Templates {
			for si := range t.Segs {
				c := clone()
				s := c.Progs[pi].Templates[ti].Segs
				c.Progs[pi].Templates[ti].Segs = append(s[:si], s[si+1:]...)
				out = append(out, c)
			}
		}
	}
	// drop whole templates (except main)
	for pi, p := range sc.Progs {
		for ti, t := range p.Templates {
			if t.Name == p.Main {
				continue
			}
			c := clone()
			ts := c.Progs[pi].Templates
			c.Progs[pi].Templates = append(ts[:ti], ts[ti+1:]...)
			out = append(out, c)
		}
	}
	if sc.Drop != 0 {
		c := clone()
		c.Drop = 0
		out = append(out, c)
	}
	if sc.Pool != simrt.PoolLIFO {
		c := clone()
		c.Pool = simrt.PoolLIFO
		out = append(out, c)
	}
	if sc.Engines > 1 {
		c := clone()
		c.Engines--
		for i := range c.Ops {
			c.Ops[i].E %= c.Engines
		}
		out = append(out, c)
	}
	// shrink the context
	for pi, p := range sc.Progs {
		if p.Ctx != nil {
			for ki := range p.Ctx.M {
				c := clone()
				m := c.Progs[pi].Ctx.M
				c.Progs[pi].Ctx.M = append(m[:ki], m[ki+1:]...)
				out = append(out, c)
			}
		}
	}
	return out
}

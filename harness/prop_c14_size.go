package main

import (
	"fmt"
	"strconv"
	"strings"

	"github.com/semihalev/twig"
	"simrt"
)

// C14, structure-size leg: the size that must not matter is not only the byte length of the source. Each
// family below is a template parameterised by a count n (elements of a literal, arguments, chained filters,
// nesting depth, statements, identifier length, …) whose output is a known function of n - mostly: no function
// of n at all. Counts straddle powers of two and other round numbers.

type c14Size struct {
	Family int   `json:"family"`
	Var    int   `json:"variant"`
	Ns     []int `json:"ns"`
}

var c14SizeNs = []int{0, 1, 2, 7, 8, 9, 15, 16, 17, 19, 20, 21, 31, 32, 33, 49, 50, 51, 63, 64, 65, 99, 100, 101, 127, 128, 129, 255, 256, 257, 511, 512, 513, 1000}

const c14SizeFamilies = 24

func rep(s string, n int, sep string) string {
	if n <= 0 {
		return ""
	}
	return strings.Repeat(s+sep, n-1) + s
}

// c14SizeCase returns the templates (main is "t"), extra context keys and the expected output for family f at count n.
func c14SizeCase(f, v, n int) (tpls map[string]string, extra map[string]interface{}, want string) {
	tpls = map[string]string{}
	extra = map[string]interface{}{}
	switch f {
	case 0: // membership in an array literal padded with other elements; the member matches after conversion
		pairs := [][3]string{{"'4'", "4", "0"}, {"4", "'4'", "0"}, {"4", "4.0", "1"}, {"'a'", "'a'", "'b'"}, {"n1", "n1", "-1"}, {"'x'", "'y'", "'z'"}, {"2", "'2.0'", "7"}}
		p := pairs[v%len(pairs)]
		lit := "[" + p[1]
		if n > 0 {
			lit += ", " + rep(p[2], n, ", ")
		}
		lit += "]"
		tpls["t"] = "{{ " + p[0] + " in " + lit + " ? 'y' : 'n' }}{{ " + p[0] + " not in " + lit + " ? 'y' : 'n' }}"
		want = "\x00same"
	case 1: // first / last / length of a padded array literal
		pad := ""
		if n > 0 {
			pad = rep("0", n, ", ") + ", "
		}
		pad2 := ""
		if n > 0 {
			pad2 = ", " + rep("0", n, ", ")
		}
		tpls["t"] = "{{ [" + pad + "7]|last }}{{ [7" + pad2 + "]|first }}{{ [" + pad + "7]|length }}"
		want = "77" + strconv.Itoa(n+1)
	case 2: // hash literal with n padding entries
		var parts []string
		for i := 0; i < n; i++ {
			parts = append(parts, fmt.Sprintf("'p%04d': 0", i))
		}
		h := "{" + strings.Join(append([]string{"'k': 5"}, parts...), ", ") + ", 'zk': 6}"
		tpls["t"] = "{% set h = " + h + " %}{{ h.k }}{{ h.zk }}{{ h|keys|last }}{{ h|length }}"
		want = "56zk" + strconv.Itoa(n+2)
	case 3: // argument lists
		more := ""
		if n > 0 {
			more = ", " + rep("0", n, ", ")
		}
		more9 := strings.ReplaceAll(more, "0", "9")
		tpls["t"] = "{{ max(3" + more + ") }}{{ min(3" + more9 + ") }}"
		want = "33"
	case 4: // chains of filters
		tpls["t"] = "{{ s1" + strings.Repeat("|upper|lower", n) + "|upper }}{{ '  x  '" + strings.Repeat("|trim", n) + "|trim }}"
		want = "\x00same"
	case 5: // long string literals
		p := strings.Repeat("p", n)
		tpls["t"] = "{{ ('x' ~ '" + p + "')|first }}{{ ('" + p + "' ~ 'x')|last }}{{ '" + p + "'|length }}"
		want = "xx" + strconv.Itoa(n)
	case 6: // long identifiers that are prefixes of each other
		l := n
		if l < 6 {
			l = 6
		}
		b := "item_" + strings.Repeat("x", l-5)
		extra[b], extra[b+"s"], extra[b+"_id"] = "one", "two", "three"
		tpls["t"] = "{{ " + b + " }}{{ " + b + "s }}{{ " + b + "_id }}{{ " + b + "s|upper }}{% set " + b + "x = 4 %}{{ " + b + "x }}{{ " + b + " }}" +
			// the same long names as loop variables, macro and parameter names, block names, import aliases, hash keys
			"|{% for " + b + "_l in [7, 8] %}{{ " + b + "_l }}{% endfor %}{% for kk, " + b + "_v in {'q': 5} %}{{ kk }}{{ " + b + "_v }}{% endfor %}" +
			"{% macro " + b + "_m(" + b + "_p) %}<{{ " + b + "_p }}>{% endmacro %}{{ _self." + b + "_m('z') }}{% block " + b + "_b %}blk{% endblock %}" +
			"{% import 'szlib' as " + b + "_i %}{{ " + b + "_i.f('w') }}{{ {'" + b + "': 1, '" + b + "s': 2}|keys|length }}{% include 'szpart' with {'" + b + "': 'inc'} %}"
		tpls["szlib"] = "{% macro f(a) %}f({{ a }}){% endmacro %}"
		tpls["szpart"] = "[{{ " + b + " }}]"
		want = "onetwothreeTWO4one|78q5<z>blkf(w)2[inc]"
	case 7: // many statements
		var sb strings.Builder
		for i := 0; i <= n; i++ {
			fmt.Fprintf(&sb, "{%% set v%d = %d %%}", i, i)
		}
		tpls["t"] = sb.String() + "{{ v0 }}{{ v" + strconv.Itoa(n) + " }}"
		want = "0" + strconv.Itoa(n)
	case 8: // many macros in one template
		var sb strings.Builder
		for i := 0; i <= n; i++ {
			fmt.Fprintf(&sb, "{%% macro m%d(a) %%}<%d{{ a }}>{%% endmacro %%}", i, i)
		}
		tpls["t"] = sb.String() + "{{ _self.m0('a') }}{{ _self.m" + strconv.Itoa(n) + "('z') }}"
		want = "<0a><" + strconv.Itoa(n) + "z>"
	case 9: // parentheses depth
		d := n
		if d > 300 {
			d = 300
		}
		tpls["t"] = "{{ " + strings.Repeat("(", d) + "1" + strings.Repeat(")", d) + " + 1 }}"
		want = "2"
	case 10: // long operator chains
		tpls["t"] = "{{ 0 + " + rep("1", n+1, " + ") + " }}{{ (" + rep("'a'", n+1, " ~ ") + ")|length }}"
		want = strconv.Itoa(n+1) + strconv.Itoa(n+1)
	case 11: // nested ternaries
		d := n
		if d > 200 {
			d = 200
		}
		tpls["t"] = "{{ " + strings.Repeat("(true ? ", d) + "'x'" + strings.Repeat(" : 'n')", d) + " }}"
		want = "x"
	case 12: // many blocks
		var sb strings.Builder
		var w strings.Builder
		for i := 0; i <= n; i++ {
			fmt.Fprintf(&sb, "{%% block b%d %%}%d,{%% endblock %%}", i, i)
			fmt.Fprintf(&w, "%d,", i)
		}
		tpls["t"] = sb.String()
		want = w.String()
	case 13: // elseif chains
		tpls["t"] = "{% if false %}a" + strings.Repeat("{% elseif false %}b", n) + "{% elseif n1 == n1 %}E{% else %}z{% endif %}"
		want = "E"
	case 14: // loops over long literals
		pad := ""
		if n > 0 {
			pad = rep("0", n, ", ") + ", "
		}
		tpls["t"] = "{% for i in [" + pad + "5] %}{% if loop.last %}{{ i }}{{ loop.index }}{{ loop.length }}{% endif %}{% if loop.first %}F{% endif %}{% endfor %}"
		want = "F5" + strconv.Itoa(n+1) + strconv.Itoa(n+1)
		if n == 0 {
			want = "5" + "1" + "1" + "F"
		}
	case 15: // include chains
		d := n
		if d > 150 {
			d = 150
		}
		for i := 0; i < d; i++ {
			tpls[fmt.Sprintf("inc%d", i)] = fmt.Sprintf("{%% include 'inc%d' %%}", i+1)
		}
		tpls[fmt.Sprintf("inc%d", d)] = "X{{ s1 }}"
		tpls["t"] = "{% include 'inc0' %}"
		want = "\x00same"
	case 16: // a macro with many parameters, a call with many arguments
		var ps, as []string
		for i := 0; i <= n; i++ {
			ps = append(ps, fmt.Sprintf("p%d", i))
			as = append(as, strconv.Itoa(i))
		}
		tpls["t"] = "{% macro big(" + strings.Join(ps, ", ") + ") %}{{ p0 }}-{{ p" + strconv.Itoa(n) + " }}{% endmacro %}{{ _self.big(" + strings.Join(as, ", ") + ") }}"
		want = "0-" + strconv.Itoa(n)
	case 17: // long output from a short template (buffer size classes)
		tpls["t"] = "{% for i in range(0, " + strconv.Itoa(n) + ") %}ab{% endfor %}|{{ 'q' }}"
		want = strings.Repeat("ab", n+1) + "|q"
	case 19: // list filters over a literal of n+2 items (items are zero-padded strings, written in descending order)
		items := make([]string, 0, n+2)
		for i := n + 1; i >= 0; i-- {
			items = append(items, fmt.Sprintf("'k%04d'", i))
		}
		lit := "[" + strings.Join(items, ", ") + "]"
		asc := make([]string, 0, n+2)
		for i := 0; i <= n+1; i++ {
			asc = append(asc, fmt.Sprintf("k%04d", i))
		}
		switch v % 4 {
		case 0:
			tpls["t"] = "{{ " + lit + "|sort|join(',') }}"
			want = strings.Join(asc, ",")
		case 1:
			tpls["t"] = "{{ " + lit + "|reverse|join(',') }}|{{ " + lit + "|sort|first }}{{ " + lit + "|sort|last }}"
			want = strings.Join(asc, ",") + "|k0000" + asc[len(asc)-1]
		case 2:
			tpls["t"] = "{{ " + lit + "|slice(1, " + strconv.Itoa(n+1) + ")|length }}|{{ " + lit + "|slice(1, 1)|first }}{{ " + lit + "|merge(['zz'])|last }}{{ " + lit + "|merge(" + lit + ")|length }}"
			want = strconv.Itoa(n+1) + "|" + asc[len(asc)-2] + "zz" + strconv.Itoa(2*(n+2))
		default:
			tpls["t"] = "{{ " + lit + "|join('')|length }}|{{ " + lit + "|length }}{{ " + lit + "|first }}{{ " + lit + "|last }}{{ 'k0000' in " + lit + " ? 'y' : 'n' }}"
			want = strconv.Itoa(5*(n+2)) + "|" + strconv.Itoa(n+2) + asc[len(asc)-1] + "k0000y"
		}
	case 20: // many whitespace-control markers
		unit := "<b>  {{- s1 -}}  </b>"
		if v%2 == 1 {
			unit = "<i> \n{{- n1 }}\t {#- c -#} </i>"
		}
		tpls["t"] = strings.Repeat(unit, n+1)
		want = "\x00unit" // (n+1) copies of whatever one copy renders to
	case 21: // a list grown by n merges, then merged twice: the two results are independent
		var sb strings.Builder
		sb.WriteString("{% set l = [] %}")
		for i := 0; i < n; i++ {
			fmt.Fprintf(&sb, "{%% set l = l|merge(['e%d']) %%}", i)
		}
		tpls["t"] = sb.String() + "{% set a = l|merge(['A']) %}{% set b = l|merge(['B']) %}{{ a|last }}{{ b|last }}{{ a|length }}{{ l|length }}"
		want = "AB" + strconv.Itoa(n+1) + strconv.Itoa(n)
	case 22: // calls nested n deep, alternating, with arguments that give every level away
		d := n % 13 // (depths 0 … 12: deep enough for anything that miscounts nesting, shallow enough to stay cheap)
		e := "5"
		for k := 1; k <= d; k++ {
			if k%2 == 1 {
				e = "min(1, " + e + ", 3)"
			} else {
				e = "max(9, " + e + ", 2)"
			}
		}
		tpls["t"] = "{{ 0 + " + e + " }}"
		switch {
		case d == 0:
			want = "5"
		case d%2 == 1:
			want = "1"
		default:
			want = "9"
		}
	case 23: // the magnitude of a formatted number: 1 … 15 digits, as a literal and from the context
		d := n%15 + 1
		digits := "123456789012345"[:d]
		grouped := func(sep string) string {
			out := ""
			for i, c := range digits {
				if i > 0 && (d-i)%3 == 0 {
					out += sep
				}
				out += string(c)
			}
			return out
		}
		iv, _ := strconv.ParseInt(digits, 10, 64)
		extra["bigv"] = iv
		extra["bigf"] = float64(iv) + 0.5
		tpls["t"] = "{{ " + digits + "|number_format(2, '.', ',') }}|{{ bigv|number_format(0, '.', ' ') }}|{{ bigf|number_format(1, ',', '.') }}|{{ bigv }}|{{ bigv + 1 }}"
		want = grouped(",") + ".00|" + grouped(" ") + "|" + grouped(".") + ",5|" + digits + "|" + strconv.FormatInt(iv+1, 10)
	case 18: // long number literals and long comments inside expressions' neighbourhood
		tpls["t"] = "{{ 2." + strings.Repeat("0", n) + "0 > 1 ? 'g' : 'l' }}{# " + strings.Repeat("c", n) + " #}{{ 'q' }}"
		want = "gq"
	}
	return
}

// c14SizeLeg renders the family at every count and compares with the expectation.
func c14SizeLeg(sc *c14Sc, o *Outcome, fp *uint64) *Violation {
	z := sc.Size
	ref := ""
	for i, n := range z.Ns {
		tpls, extra, want := c14SizeCase(z.Family, z.Var, n)
		got, w := c14SizeRender(sc.Prog, tpls, extra)
		*fp = simrt.Mix(*fp, w.Fingerprint(), strHash(got.Key()))
		o.Probes["size_leg_renders"]++
		if want == "\x00unit" {
			if i == 0 {
				one, _ := c14SizeRender(sc.Prog, map[string]string{"t": tpls["t"][:len(tpls["t"])/(n+1)]}, extra)
				if one.Class != "ok" {
					return nil
				}
				ref = one.Out
			}
			want = strings.Repeat(ref, n+1)
		}
		if want == "\x00same" {
			if i == 0 {
				ref = got.Key()
				if got.Class != "ok" {
					return nil // the family does not evaluate in this engine at all: nothing to compare
				}
				continue
			}
			if got.Key() != ref {
				return &Violation{Oracle: "structure-size", Sig: fmt.Sprintf("the result depends on a count (family %d, %s)", z.Family, got.Class),
					Detail: fmt.Sprintf("family %d variant %d: with count %d the template gives %s\n with count %d it gave %q\n template (count %d): %s", z.Family, z.Var, n, got, z.Ns[0], ref, n, tail(tpls["t"], 300))}
			}
			continue
		}
		if got.Class != "ok" || got.Out != want {
			if i == 0 && got.Class != "ok" {
				return nil
			}
			return &Violation{Oracle: "structure-size", Sig: fmt.Sprintf("the result depends on a count (family %d, %s)", z.Family, got.Class),
				Detail: fmt.Sprintf("family %d variant %d count %d\n expected %q\n got      %s\n template: %s", z.Family, z.Var, n, tail(want, 200), got, tail(tpls["t"], 300))}
		}
	}
	return nil
}

func c14SizeRender(p *Program, tpls map[string]string, extra map[string]interface{}) (res Obs, wr *simrt.World) {
	w := simrt.Begin(simrt.Config{Seed: 14, PoolPolicy: simrt.PoolLIFO, MapOrder: simrt.OrderSorted, ClockStart: 1_700_000_000e9, ClockStep: 1e6, PreemptDen: 4})
	defer simrt.End()
	saved := twig.VerifSwapGlobals(nil)
	defer twig.VerifSwapGlobals(saved)
	w.EnterMain()
	defer func() {
		r := recover()
		if r != nil && !simrtAbort(r) {
			w.LeaveMain()
			panic(r)
		}
		if ab := w.LeaveMain(); ab != "" {
			res, wr = Obs{Class: "aborted", Err: ab}, w
		}
	}()
	e := twig.New()
	installSandbox(e)
	installGlobals(e)
	names := make([]string, 0, len(tpls))
	for n := range tpls {
		names = append(names, n)
	}
	sortStrings(names)
	for _, n := range names {
		if err := e.RegisterString(n, tpls[n]); err != nil && n == "t" {
			return Obs{Class: "error", Err: err.Error()}, w
		}
	}
	ctx := BuildCtx(p.Ctx, 0)
	for k, v := range extra {
		ctx[k] = v
	}
	observe(nil, func() (string, error) { return e.Render("t", ctx) })
	return observe(nil, func() (string, error) { return e.Render("t", ctx) }), w
}

func sortStrings(s []string) {
	for i := 1; i < len(s); i++ {
		for j := i; j > 0 && s[j] < s[j-1]; j-- {
			s[j], s[j-1] = s[j-1], s[j]
		}
	}
}

func init() {
	extraCmds["c14sizes"] = func(args []string) {
		// developer aid: what every family evaluates to on the current tree
		p := &Program{Ctx: defaultCtx(newR(1))}
		for f := 0; f < c14SizeFamilies; f++ {
			for _, n := range []int{1, 33, 34, 35} {
				tpls, extra, want := c14SizeCase(f, n, n) // the variant follows n here, so that every variant is shown
				got, _ := c14SizeRender(p, tpls, extra)
				ok := want == "\x00same" || got.Out == want
				fmt.Printf("family %2d n=%-3d %-5s match=%v out=%q err=%q\n", f, n, got.Class, ok, tail(got.Out, 60), tail(got.Err, 80))
			}
		}
	}
}

// ---- inner-insertion leg: text inserted at tag boundaries INSIDE the template (loop and branch bodies, macro
// bodies, blocks), not only between top-level segments ----

// c14InsertionPoints returns byte offsets of src that lie between two tags or between a tag and text, outside
// verbatim blocks and comments, where both neighbouring bytes are not white space (so that no whitespace-sensitive
// construct sees a different neighbourhood).
func c14InsertionPoints(src string) []int {
	var pts []int
	ok := func(p int) bool {
		if p <= 0 || p >= len(src) {
			return true
		}
		a, b := src[p-1], src[p]
		sp := func(c byte) bool { return c == ' ' || c == '\n' || c == '\t' || c == '\r' }
		if sp(a) || sp(b) {
			return false
		}
		// not next to a tag with a whitespace-control dash on this side
		if p >= 3 && (src[p-3:p] == "-}}" || src[p-3:p] == "-%}" || src[p-3:p] == "-#}") {
			return false
		}
		if p+3 <= len(src) && (src[p:p+3] == "{{-" || src[p:p+3] == "{%-" || src[p:p+3] == "{#-") {
			return false
		}
		return true
	}
	add := func(p int) {
		if ok(p) && (len(pts) == 0 || pts[len(pts)-1] != p) {
			pts = append(pts, p)
		}
	}
	add(0)
	i := 0
	for i < len(src) {
		switch {
		case strings.HasPrefix(src[i:], "{% verbatim %}"):
			j := strings.Index(src[i:], "{% endverbatim %}")
			if j < 0 {
				return pts
			}
			add(i)
			i += j + len("{% endverbatim %}")
			add(i)
		case strings.HasPrefix(src[i:], "{#"):
			j := strings.Index(src[i:], "#}")
			if j < 0 {
				return pts
			}
			add(i)
			i += j + 2
			add(i)
		case strings.HasPrefix(src[i:], "{{") || strings.HasPrefix(src[i:], "{%"):
			closer := "}}"
			if src[i+1] == '%' {
				closer = "%}"
			}
			add(i)
			j := i + 2
			quote := byte(0)
			for j < len(src) {
				c := src[j]
				if quote != 0 {
					if c == '\\' {
						j++
					} else if c == quote {
						quote = 0
					}
				} else if c == '\'' || c == '"' {
					quote = c
				} else if strings.HasPrefix(src[j:], closer) {
					break
				}
				j++
			}
			if j >= len(src) {
				return pts
			}
			i = j + 2
			add(i)
		default:
			i++
		}
	}
	add(len(src))
	return pts
}

// c14InnerLeg: original vs the same template with a one-byte sentinel at up to three inner points vs the same with
// long runs of digits there. Removing the sentinels must give the original's output; replacing them by the runs
// must give the long version's output.
func c14InnerLeg(sc *c14Sc, base Obs, mainSrc string, o *Outcome, fp *uint64) *Violation {
	for _, bad := range []string{"spaceless", "apply trim", "\\{", "{% extends", "|trim"} {
		if strings.Contains(mainSrc, bad) {
			return nil
		}
	}
	pts := c14InsertionPoints(mainSrc)
	if len(pts) == 0 || base.Class != "ok" {
		return nil
	}
	r := newR(sc.InnerSeed)
	var chosen []int
	for k := 0; k < 3; k++ {
		chosen = append(chosen, pts[r.N(len(pts))])
	}
	sortInts(chosen)
	build := func(pad string) string {
		var sb strings.Builder
		prev := 0
		for i, p := range chosen {
			if i > 0 && p == chosen[i-1] {
				continue
			}
			sb.WriteString(mainSrc[prev:p])
			sb.WriteString(pad)
			prev = p
		}
		sb.WriteString(mainSrc[prev:])
		return sb.String()
	}
	const sentinel = "\x02"
	ref, w := c14Render(sc.Prog, nil, build(sentinel))
	*fp = simrt.Mix(*fp, w.Fingerprint(), strHash(ref.Key()))
	o.Probes["inner_insertion_renders"]++
	if ref.Class != "ok" || strings.ReplaceAll(ref.Out, sentinel, "") != base.Out {
		return &Violation{Oracle: "padding-changes-only-padding", Sig: fmt.Sprintf("one byte of text inserted at a tag boundary inside the template changed more than itself (%s)", ref.Class),
			Detail: fmt.Sprintf("main template %q\n with \\x02 inserted at offsets %v: %q\n original output:  %s\n output with the inserted bytes removed: %s %s", mainSrc, chosen, build(sentinel), tail(base.Out, 300), tail(strings.ReplaceAll(ref.Out, sentinel, ""), 300), ref.Err)}
	}
	for _, n := range []int{37, 5000} {
		pad := strings.Repeat("7", n)
		got, w := c14Render(sc.Prog, nil, build(pad))
		*fp = simrt.Mix(*fp, w.Fingerprint(), strHash(got.Key()))
		o.Probes["inner_insertion_renders"]++
		if want := strings.ReplaceAll(ref.Out, sentinel, pad); got.Class != "ok" || got.Out != want {
			return &Violation{Oracle: "padding-changes-only-padding", Sig: fmt.Sprintf("text inserted at tag boundaries inside the template changed more than itself (%s)", got.Class),
				Detail: fmt.Sprintf("main template %q\n %d digits inserted at offsets %v\n expected tail: %s\n got tail:      %s %s", mainSrc, n, chosen, lastN(want, 200), lastN(got.Out, 200), got.Err)}
		}
	}
	return nil
}

func sortInts(s []int) {
	for i := 1; i < len(s); i++ {
		for j := i; j > 0 && s[j] < s[j-1]; j-- {
			s[j], s[j-1] = s[j-1], s[j]
		}
	}
}

package main

// propTiers returns the (quick, thorough) budgets per property.
func propTiers(id string) (tierConf, tierConf) {
	switch id {
	case "C18":
		return tierConf{Runs: 36000, BudgetS: 60, ShrinkS: 60, DetRuns: 24}, tierConf{Runs: 3_000_000, BudgetS: 900, ShrinkS: 180, DetRuns: 100}
	case "C20":
		return tierConf{Runs: 24000, BudgetS: 60, ShrinkS: 40, DetRuns: 24}, tierConf{Runs: 1_000_000, BudgetS: 900, ShrinkS: 120, DetRuns: 100}
	case "C02":
		return tierConf{Runs: 50000, BudgetS: 60, ShrinkS: 60, DetRuns: 24}, tierConf{Runs: 5_000_000, BudgetS: 900, ShrinkS: 180, DetRuns: 100}
	case "C14":
		return tierConf{Runs: 30000, BudgetS: 110, ShrinkS: 30, DetRuns: 32}, tierConf{Runs: 2_000_000, BudgetS: 900, ShrinkS: 120, DetRuns: 200}
	case "C15":
		return tierConf{Runs: 800000, BudgetS: 60, ShrinkS: 30, DetRuns: 32}, tierConf{Runs: 20_000_000, BudgetS: 900, ShrinkS: 120, DetRuns: 200}
	case "C16":
		return tierConf{Runs: 120000, BudgetS: 60, ShrinkS: 30, DetRuns: 32}, tierConf{Runs: 5_000_000, BudgetS: 900, ShrinkS: 120, DetRuns: 200}
	case "C17":
		return tierConf{Runs: 160000, BudgetS: 60, ShrinkS: 30, DetRuns: 24}, tierConf{Runs: 4_000_000, BudgetS: 900, ShrinkS: 120, DetRuns: 100}
	case "C03":
		return tierConf{Runs: 70000, BudgetS: 60, ShrinkS: 30, DetRuns: 32}, tierConf{Runs: 3_000_000, BudgetS: 900, ShrinkS: 120, DetRuns: 200}
	case "C01":
		return tierConf{Runs: 50000, BudgetS: 60, ShrinkS: 30, DetRuns: 32}, tierConf{Runs: 5_000_000, BudgetS: 900, ShrinkS: 120, DetRuns: 200}
	}
	return tierConf{Runs: 4000, BudgetS: 60, ShrinkS: 30, DetRuns: 32}, tierConf{Runs: 1_000_000, BudgetS: 900, ShrinkS: 120, DetRuns: 200}
}

package main

import (
	"bytes"
	"database/sql"
	"fmt"
	"math/big"
	"reflect"
	"sort"
	"strings"
	"time"
)

// Val is a serialisable description of a Go value placed in a render context.
type Val struct {
	T string  `json:"t"` // nil str int float bool list map smap imap ilist slist struct ptr stringer
	S string  `json:"s,omitempty"`
	I int64   `json:"i,omitempty"`
	F float64 `json:"f,omitempty"`
	B bool    `json:"b,omitempty"`
	L []*Val  `json:"l,omitempty"`
	M []KV    `json:"m,omitempty"` // insertion order is part of the description
}

// KV is one map entry / struct field.
type KV struct {
	K string `json:"k"`
	V *Val   `json:"v"`
}

// Person is the struct shape used in generated contexts.
type Person struct {
	Name  string
	Age   int
	Tags  []string
	Meta  map[string]interface{}
	Inner *Person
	priv  int
}

// Greeting is a value-receiver method.
func (p Person) Greeting() string { return "hi " + p.Name }

// Upper is a pointer-receiver method.
func (p *Person) Upper() string { return strings.ToUpper(p.Name) }

// Counter has a pointer-receiver method that writes to its receiver.
type Counter struct {
	N     int
	Calls int
}

// Next mutates the receiver (think of a memoising getter).
func (c *Counter) Next() int { c.Calls++; c.N++; return c.N }

// Label is a pure value-receiver method.
func (c Counter) Label() string { return fmt.Sprintf("c%d", c.N) }

// BaseRec is embedded BY POINTER in Holder: a nil *BaseRec makes every promoted name unreachable, and
// reading one must not allocate it.
type BaseRec struct {
	ID   int
	Slug string
}

// Holder is reached through a pointer, so its fields are settable by reflection.
type Holder struct {
	*BaseRec
	Title string
	Opt   *Person
	Notes map[string]interface{}
	Refs  []string
}

// Profile is an exported struct type embedded by value in Account: its fields are promoted.
type Profile struct {
	Nick string
	Rank int
}

// Account embeds Profile.
type Account struct {
	Profile
	Plan string
}

// Label implements a Stringer-like value.
type Label struct{ Text string }

func (l Label) String() string { return "<" + l.Text + ">" }

// Build materialises the description. order: 0 = as listed, 1 = reversed, 2 = rotated by one.
// Every call allocates fresh objects, so addresses differ between builds.
func (v *Val) Build(order int) interface{} {
	if v == nil {
		return nil
	}
	ents := func() []KV {
		m := append([]KV(nil), v.M...)
		switch order {
		case 1:
			for i, j := 0, len(m)-1; i < j; i, j = i+1, j-1 {
				m[i], m[j] = m[j], m[i]
			}
		case 2:
			if len(m) > 1 {
				m = append(m[1:], m[0])
			}
		}
		return m
	}
	switch v.T {
	case "nil":
		return nil
	case "str":
		return v.S
	case "int":
		return int(v.I)
	case "i64":
		return v.I
	case "float":
		return v.F
	case "bool":
		return v.B
	case "list":
		out := make([]interface{}, 0, len(v.L))
		for _, e := range v.L {
			out = append(out, e.Build(order))
		}
		return out
	case "ilist":
		out := make([]int, 0, len(v.L))
		for _, e := range v.L {
			out = append(out, int(e.I))
		}
		return out
	case "slist":
		out := make([]string, 0, len(v.L))
		for _, e := range v.L {
			out = append(out, e.S)
		}
		return out
	case "map":
		out := make(map[string]interface{})
		for _, kv := range ents() {
			out[kv.K] = kv.V.Build(order)
		}
		return out
	case "smap":
		out := make(map[string]string)
		for _, kv := range ents() {
			out[kv.K] = kv.V.S
		}
		return out
	case "simap":
		out := make(map[string]int)
		for _, kv := range ents() {
			out[kv.K] = int(kv.V.I)
		}
		return out
	case "imap":
		out := make(map[int]string)
		for _, kv := range ents() {
			var k int
			fmt.Sscanf(kv.K, "%d", &k)
			out[k] = kv.V.S
		}
		return out
	case "struct", "ptr":
		p := &Person{}
		for _, kv := range v.M {
			switch kv.K {
			case "Name":
				p.Name = kv.V.S
			case "Age":
				p.Age = int(kv.V.I)
			case "Tags":
				for _, e := range kv.V.L {
					p.Tags = append(p.Tags, e.S)
				}
			case "Meta":
				if m, ok := kv.V.Build(order).(map[string]interface{}); ok {
					p.Meta = m
				}
			case "Inner":
				if q, ok := kv.V.Build(order).(*Person); ok {
					p.Inner = q
				}
			}
		}
		if v.T == "ptr" {
			return p
		}
		return *p
	case "stringer":
		return Label{v.S}
	case "time":
		return time.Unix(v.I, 0).UTC()
	case "account": // Account{Profile{S, I}, "plan-"+S}
		return Account{Profile: Profile{Nick: v.S, Rank: int(v.I)}, Plan: "plan-" + v.S}
	case "people": // []Person: struct VALUES whose slices and maps still share memory with the caller's
		out := make([]Person, 0, len(v.L)+2)
		for _, e := range v.L {
			out = append(out, Person{Name: e.S, Age: int(e.I), Tags: []string{"z-" + e.S, "a-" + e.S, "m-" + e.S}, Meta: map[string]interface{}{"k": e.S}})
		}
		return out
	case "mos": // map[string][]int
		out := map[string][]int{}
		for _, kv := range ents() {
			var l []int
			for _, e := range kv.V.L {
				l = append(l, int(e.I))
			}
			out[kv.K] = l
		}
		return out
	case "parr": // *[4]int: a Go array reached through a pointer (addressable)
		a := [4]int{4, 1, 3, 2}
		return &a
	case "arr": // [3]string by value
		return [3]string{"c", "a", "b"}
	case "pptr": // **Person
		p := &Person{Name: v.S, Age: int(v.I), Tags: []string{"t"}}
		return &p
	case "inil": // an interface holding a typed nil pointer
		var p *Person
		return p
	case "bytes":
		return []byte(v.S)
	case "buffer": // *bytes.Buffer: a value whose own methods (WriteTo, Read, Next) consume it
		return bytes.NewBufferString(v.S)
	case "sortable": // sort.StringSlice: a value that knows how to sort ITSELF
		out := sort.StringSlice{}
		for _, e := range v.L {
			out = append(out, e.S)
		}
		return out
	case "timeptr": // *time.Time; I = unix seconds, 0 = the zero time (a row's DeletedAt that was never set)
		t := time.Time{}
		if v.I != 0 {
			t = time.Unix(v.I, 0).UTC()
		}
		return &t
	case "row": // *Row: what a handler gets from its database layer
		z, c := time.Time{}, time.Unix(1_700_000_000+v.I, 0).UTC()
		return &Row{ID: int(v.I), DeletedAt: &z, CreatedAt: c, UpdatedAt: &c, Email: sql.NullString{String: v.S, Valid: v.S != ""}, Seats: sql.NullInt64{Int64: v.I, Valid: true}}
	case "bigint": // *big.Int
		return big.NewInt(v.I)
	case "bigrat": // *big.Rat
		return big.NewRat(v.I, 7)
	case "lazy": // func() interface{}: a value somebody might want to compute on first use
		text := v.S
		return func() interface{} { return text }
	case "func": // a Go callable
		text := v.S
		return func() string { return text }
	case "holder": // *Holder; S = title, I != 0: embedded pointer set (ID = I)
		h := &Holder{Title: v.S}
		if v.I != 0 {
			h.BaseRec = &BaseRec{ID: int(v.I), Slug: "slug-" + v.S}
		}
		return h
	case "holders": // []*Holder
		out := make([]*Holder, 0, len(v.L)+2)
		for _, e := range v.L {
			out = append(out, e.Build(order).(*Holder))
		}
		return out
	case "counters": // []Counter (struct values)
		out := make([]Counter, 0, len(v.L))
		for _, e := range v.L {
			out = append(out, Counter{N: int(e.I)})
		}
		return out
	case "fmap": // map[float64]string
		out := make(map[float64]string)
		for _, kv := range ents() {
			var k float64
			fmt.Sscanf(kv.K, "%g", &k)
			out[k] = kv.V.S
		}
		return out
	case "bmap": // map[bool]int
		out := make(map[bool]int)
		for _, kv := range ents() {
			out[kv.K == "true"] = int(kv.V.I)
		}
		return out
	case "kmap": // map[Label]string: struct keys
		out := make(map[Label]string)
		for _, kv := range ents() {
			out[Label{kv.K}] = kv.V.S
		}
		return out
	case "anymap": // map[interface{}]interface{}; keys "#<n>" become ints, everything else stays a string
		out := make(map[interface{}]interface{})
		for _, kv := range ents() {
			if strings.HasPrefix(kv.K, "#") {
				var k int
				fmt.Sscanf(kv.K[1:], "%d", &k)
				out[k] = kv.V.Build(order)
			} else {
				out[kv.K] = kv.V.Build(order)
			}
		}
		return out
	case "pmap": // pointer to a map value holder (prints with an address)
		m := map[string]interface{}{}
		for _, kv := range ents() {
			m[kv.K] = kv.V.Build(order)
		}
		return &m
	}
	return nil
}

// BuildCtx builds a top-level context map from a "map" description.
func BuildCtx(v *Val, order int) map[string]interface{} {
	if v == nil {
		return nil
	}
	m, _ := v.Build(order).(map[string]interface{})
	return m
}

// snapshot renders any Go value by content, including slice elements up to cap, for the
// "caller's data unchanged" oracle. Pointers are followed and never printed.
// Row is a typical database row: nullable columns as database/sql wrappers, optional times as pointers.
type Row struct {
	ID        int
	DeletedAt *time.Time
	CreatedAt time.Time
	UpdatedAt *time.Time
	Email     sql.NullString
	Seats     sql.NullInt64
}

func snapshot(x interface{}) string {
	var sb strings.Builder
	snap(&sb, reflect.ValueOf(x), 0, map[uintptr]bool{})
	return sb.String()
}

func snap(sb *strings.Builder, v reflect.Value, d int, seen map[uintptr]bool) {
	if !v.IsValid() {
		sb.WriteString("nil")
		return
	}
	if d > 40 {
		sb.WriteString("<deep>")
		return
	}
	switch v.Kind() {
	case reflect.Interface:
		if v.IsNil() {
			sb.WriteString("nil")
			return
		}
		sb.WriteString(v.Elem().Type().String() + ":")
		snap(sb, v.Elem(), d+1, seen)
	case reflect.Ptr:
		if v.IsNil() {
			sb.WriteString("nil")
			return
		}
		if seen[v.Pointer()] {
			sb.WriteString("<cycle>")
			return
		}
		seen[v.Pointer()] = true
		sb.WriteString("&")
		snap(sb, v.Elem(), d+1, seen)
		delete(seen, v.Pointer())
	case reflect.Struct:
		sb.WriteString(v.Type().Name() + "{")
		for i := 0; i < v.NumField(); i++ {
			sb.WriteString(v.Type().Field(i).Name + ":")
			snap(sb, v.Field(i), d+1, seen)
			sb.WriteString(",")
		}
		sb.WriteString("}")
	case reflect.Slice:
		if v.IsNil() {
			sb.WriteString("nil[]")
			return
		}
		fmt.Fprintf(sb, "[len=%d cap=%d:", v.Len(), v.Cap())
		full := v.Slice(0, v.Cap())
		for i := 0; i < full.Len(); i++ {
			snap(sb, full.Index(i), d+1, seen)
			sb.WriteString(",")
		}
		sb.WriteString("]")
	case reflect.Array:
		sb.WriteString("[")
		for i := 0; i < v.Len(); i++ {
			snap(sb, v.Index(i), d+1, seen)
			sb.WriteString(",")
		}
		sb.WriteString("]")
	case reflect.Map:
		if v.IsNil() {
			sb.WriteString("nilmap")
			return
		}
		parts := make([]string, 0, v.Len())
		it := v.MapRange()
		for it.Next() {
			var a, b strings.Builder
			snap(&a, it.Key(), d+1, seen)
			snap(&b, it.Value(), d+1, seen)
			parts = append(parts, a.String()+"=>"+b.String())
		}
		sort.Strings(parts)
		sb.WriteString("map{" + strings.Join(parts, ";") + "}")
	case reflect.String:
		fmt.Fprintf(sb, "%q", v.String())
	case reflect.Bool:
		fmt.Fprintf(sb, "%v", v.Bool())
	case reflect.Int, reflect.Int8, reflect.Int16, reflect.Int32, reflect.Int64:
		fmt.Fprintf(sb, "%d", v.Int())
	case reflect.Uint, reflect.Uint8, reflect.Uint16, reflect.Uint32, reflect.Uint64, reflect.Uintptr:
		fmt.Fprintf(sb, "%d", v.Uint())
	case reflect.Float32, reflect.Float64:
		fmt.Fprintf(sb, "%g", v.Float())
	default:
		sb.WriteString(v.Type().String())
	}
}

// Variant returns a deep copy of the description with its leaf values changed in a way that is a pure
// function of k (k = 0 returns an unchanged copy). Rendering one template with several variants makes
// anything that wrongly survives from an earlier render (a value cached on a node, a recycled map) visible.
func (v *Val) Variant(k int) *Val {
	if v == nil {
		return nil
	}
	c := *v
	if k != 0 {
		switch v.T {
		case "str":
			c.S = fmt.Sprintf("%s~%d", v.S, k)
		case "int", "i64":
			c.I = v.I + int64(k)
		case "float":
			c.F = v.F + float64(k)
		case "bool":
			if k%2 == 1 {
				c.B = !v.B
			}
		}
	}
	if v.L != nil {
		c.L = make([]*Val, len(v.L))
		for i, e := range v.L {
			c.L[(i+k)%len(v.L)] = e.Variant(k)
		}
	}
	if v.M != nil {
		c.M = make([]KV, len(v.M))
		for i, kv := range v.M {
			c.M[i] = KV{kv.K, kv.V.Variant(k)}
		}
		if k != 0 && len(v.M) >= 16 && v.T == "map" {
			// big maps also change their KEY SET between variants while keeping their size
			c.M[len(c.M)-1].K = fmt.Sprintf("%s_v%d", c.M[len(c.M)-1].K, k)
		}
	}
	return &c
}

#!/bin/bash
# tools/seedall.sh [tier] [id-regex]  - regression of the machinery: every seeded change is applied to a scratch worktree of
# /repo HEAD (never to /repo itself) and the property's check must report a violation (exit 1).
# Prints one line per seed and a summary; exits 0 iff every applicable seed is caught.
set -u
cd "$(dirname "$0")/.."
TIER=${1:-quick}
ONLY=${2:-.}
REPO=${VP_RUN_REPO:-/repo}
MISSED=0; CAUGHT=0; NA=0
for d in seeded/*/; do
  id=$(basename "$d"); prop=${id%%-*}
  [ -f "$d/patch.diff" ] || continue
  echo "$id" | grep -Eq -e "$ONLY" || continue
  if grep -q '"rejected": true' "$d/meta.json" 2>/dev/null; then echo "$id rejected-as-out-of-scope (see meta.json)"; continue; fi
  W=$(mktemp -d /tmp/sa-XXXXXX); rmdir "$W"
  git -C "$REPO" worktree add -q "$W" HEAD || { echo "$id worktree-failed"; continue; }
  if ! git -C "$W" apply "$PWD/$d/patch.diff" 2>/dev/null; then
    if ! git -C "$W" apply --3way "$PWD/$d/patch.diff" >/dev/null 2>&1; then
      echo "$id does-not-apply-to-current-HEAD"; NA=$((NA+1)); git -C "$REPO" worktree remove --force "$W"; continue
    fi
  fi
  VERIF_REPO="$W" ./check "$prop" "$TIER" > /tmp/sa-$$.log 2>&1; rc=$?
  sig=$(grep -m1 "^oracle=" /tmp/sa-$$.log | cut -c1-140)
  case $rc in
    1) echo "$id CAUGHT $sig"; CAUGHT=$((CAUGHT+1));;
    0) echo "$id MISSED"; MISSED=$((MISSED+1));;
    *) echo "$id HARNESS-TROUBLE(exit $rc) $(tail -2 /tmp/sa-$$.log | tr '\n' ' ' | cut -c1-200)"; MISSED=$((MISSED+1));;
  esac
  git -C "$REPO" worktree remove --force "$W"
done
rm -f /tmp/sa-$$.log
echo "summary: caught=$CAUGHT missed=$MISSED not-applicable=$NA"
[ $MISSED = 0 ]

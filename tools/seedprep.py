#!/usr/bin/env python3
# tools/seedprep.py - prepare scratch worktrees /tmp/wt/<ID> of /repo HEAD and the text each independent author gets:
# the property as given, plus the mechanisms earlier authors used (from seeded/*/meta.json) and the defects already fixed.
import json, glob, os, subprocess
props = {}
for l in open('/verif/properties.jsonl'):
    d = json.loads(l); props[d['id']] = d
kf = json.load(open('/verif/known_findings.json'))
ids = ['C01', 'C02', 'C03', 'C14', 'C15', 'C16', 'C17', 'C18', 'C20']
os.makedirs('/tmp/wt', exist_ok=True)
for i in ids:
    d = props[i]
    out = [f"PROPERTY {i}: {d['title']}\n", "STATEMENT:\n" + d['statement'] + "\n", "QUANTIFIER: " + d['quantifier']['text'] + "\n",
           "WHY THE EXISTING TESTS CANNOT SETTLE IT:\n" + d['why_tests_cant'] + "\n", "WHERE IT LIVES (anchors):\n" + json.dumps(d['anchors'], indent=1) + "\n",
           "MECHANISMS ALREADY USED by earlier authors (do NOT repeat these or close variants):"]
    for m in sorted(glob.glob(f'/verif/seeded/{i}-*/meta.json')):
        mm = json.load(open(m))
        out.append(" - " + mm['change'] + "  [needed: " + mm['needs_to_manifest'] + "]")
    out.append("\nDEFECTS ALREADY FIXED in this tree (re-introducing one of them does not count):")
    for k in kf:
        if k['property'] == i:
            out.append(" - " + (k.get('what') or k.get('summary') or k.get('title') or json.dumps(k)[:200]))
    open(f'/tmp/wt/{i}.property.txt', 'w').write("\n".join(out) + "\n")
    subprocess.run(['git', '-C', '/repo', 'worktree', 'add', '-q', f'/tmp/wt/{i}', 'HEAD'], check=True)
print("prepared", ids)

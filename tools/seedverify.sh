#!/bin/bash
# tools/seedverify.sh <dir containing patch.diff and demo_test.go>
# Confirms in a scratch worktree of /repo HEAD: patch applies and builds, existing suite passes with it,
# the demonstration fails with it and passes without it. Prints one summary line.
set -u
D=$(readlink -f "$1")
W=/tmp/sv-$$
export GOFLAGS=-mod=mod GOPROXY=off
git -C /repo worktree add -q "$W" HEAD || exit 2
trap 'git -C /repo worktree remove --force "$W" >/dev/null 2>&1' EXIT
cd "$W"
demo() { # $1 = extra flags ; returns 0 if demo passes
  cp "$D/demo_test.go" "$W/zz_demo_test.go"
  go test -vet=off -count=1 $1 -run "$(grep -o 'func Test[A-Za-z0-9_]*' zz_demo_test.go | sed 's/func //' | paste -sd'|')" . >/tmp/sv-$$.log 2>&1; local rc=$?
  rm -f "$W/zz_demo_test.go"; return $rc
}
demo "" ; BASE=$?
demo "-race"; BASER=$?
git apply "$D/patch.diff" 2>/tmp/sv-$$.apply || { echo "RESULT applies=no $(head -2 /tmp/sv-$$.apply | tr '\n' ' ')"; exit 1; }
go build . || { echo "RESULT applies=yes builds=no"; exit 1; }
go test -vet=off -count=1 . >/dev/null 2>&1; SUITE=$?
demo ""; WITH=$?
demo "-race"; WITHR=$?
echo "RESULT applies=yes builds=yes suite_with_patch=$([ $SUITE = 0 ] && echo pass || echo FAIL) demo_without_patch=$([ $BASE = 0 ] && echo pass || echo FAIL)/race:$([ $BASER = 0 ] && echo pass || echo FAIL) demo_with_patch=$([ $WITH = 0 ] && echo pass || echo FAIL)/race:$([ $WITHR = 0 ] && echo pass || echo FAIL)"
rm -f /tmp/sv-$$.log /tmp/sv-$$.apply

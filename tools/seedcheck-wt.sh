#!/bin/bash
# tools/seedcheck-wt.sh <patch.diff> <ID> [tier]  - like seedcheck.sh but never touches /repo: the change is applied
# to a scratch worktree of /repo HEAD and the check runs against it through VERIF_REPO (use while a background run
# that rebuilds from /repo is in flight). The evidence file is restored afterwards.
set -u
PATCH=$(readlink -f "$1"); ID=$2; TIER=${3:-quick}
cd "$(dirname "$0")/.."
W=$(mktemp -d /tmp/scw-XXXXXX); rmdir "$W"
git -C /repo worktree add -q "$W" HEAD || exit 2
trap 'git -C /repo worktree remove --force "$W" >/dev/null 2>&1; git checkout -q -- evidence/'"$ID"'.json 2>/dev/null' EXIT
git -C "$W" apply "$PATCH" || { echo "seedcheck: patch does not apply"; exit 2; }
VERIF_REPO="$W" ./check "$ID" "$TIER" > /tmp/scw.$$.log 2>&1; RC=$?
grep -E "^violation in run|^oracle=|^VIOLATION|^shrunk|^explicit|simulated runs|^check:|HARNESS|NONDET" /tmp/scw.$$.log | head -12
echo "exit=$RC"
rm -f /tmp/scw.$$.log
exit $RC

#!/bin/bash
# tools/seedcheck.sh <patch.diff> <ID> [tier]  - apply a seeded change to /repo, run the check, undo it.
# Prints the check's tail and exit code. /repo is always restored.
set -u
PATCH=$(readlink -f "$1"); ID=$2; TIER=${3:-quick}
cd /verif
git -C /repo diff --quiet || { echo "seedcheck: /repo has uncommitted changes"; exit 2; }
git -C /repo apply "$PATCH" || { echo "seedcheck: patch does not apply"; exit 2; }
trap 'git -C /repo checkout -- . ; git -C /repo clean -fdq' EXIT
(cd /repo && go build . ) || { echo "seedcheck: does not build"; exit 2; }
(cd /repo && go test -vet=off -count=1 . >/dev/null 2>&1) && echo "suite: pass" || echo "suite: FAIL"
./check "$ID" "$TIER" > /tmp/seedcheck.$$.log 2>&1; RC=$?
grep -E "^violation in run|^oracle=|^VIOLATION|^shrunk|^explicit|simulated runs" /tmp/seedcheck.$$.log | head -12
echo "exit=$RC"
rm -f /tmp/seedcheck.$$.log
exit $RC

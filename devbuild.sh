#!/bin/bash
# developer helper: build the harness once into /tmp/hx (race if $1 = race)
export GOFLAGS=-mod=mod GOPROXY=off GOSUMDB=off GOTOOLCHAIN=local
set -e
cd /verif
go1.26.8 build -o bin/instrument ./cmd/instrument
rm -rf /tmp/hx && mkdir -p /tmp/hx/harness
./bin/instrument -src ${VERIF_REPO:-/repo} -out /tmp/hx/twig -census /tmp/hx/census.json
cp -r simrt /tmp/hx/simrt; cp harness/*.go harness/go.mod harness/go.sum /tmp/hx/harness/
sed -i "s#replace simrt => .*#replace simrt => /tmp/hx/simrt#" /tmp/hx/twig/go.mod
F="-trimpath"; [ "${1:-}" = race ] && F="$F -race"
(cd /tmp/hx/harness && go1.26.8 build $F -o /tmp/hx/simcheck .)
echo built /tmp/hx/simcheck

// Command instrument copies package github.com/semihalev/twig from a working tree into a scratch
// directory and puts every source of nondeterminism behind a simrt seam (see DESIGN.md §2).
// Rewrites are decided on go/types information, never on text.
package main

import (
	"bytes"
	"encoding/json"
	"flag"
	"fmt"
	"go/ast"
	"go/format"
	"go/importer"
	"go/parser"
	"go/token"
	"go/types"
	"os"
	"path/filepath"
	"sort"
	"strconv"
	"strings"

	"golang.org/x/tools/go/ast/astutil"
)

type census struct {
	Files          int            `json:"files"`
	Rules          map[string]int `json:"rules"`
	Knobs          []string       `json:"knobs"`
	Skipped        []string       `json:"skipped"`
	SharedTypes    []string       `json:"shared_types"`
	WithTests      bool           `json:"with_tests"`
	YieldsInserted bool           `json:"yields"`
}

var (
	src      = flag.String("src", "/repo", "working tree of semihalev/twig")
	out      = flag.String("out", "", "output directory (created)")
	simrtDir = flag.String("simrt", "/verif/simrt", "path of the simrt module")
	export   = flag.String("export", "/verif/harness/export/zz_verif_export.go", "export file dropped into the copy")
	tests    = flag.Bool("tests", false, "also copy and rewrite _test.go files (fidelity self-test)")
	yields   = flag.Bool("yields", true, "insert scheduling points")
	censusF  = flag.String("census", "", "write the census JSON here")
)

// curated tuning constants: (function name, literal) -> knob name
var knobSites = map[string]string{
	"Parse:4096":             "parser.optimized_threshold",
	"GetTokenizer:32":        "tokenizer.min_capacity",
	"GetTokenizer:10":        "tokenizer.capacity_divisor",
	"GetTokenSlice:1000":     "tokenslice.direct_alloc_threshold",
	"ReleaseTokenSlice:1000": "tokenslice.pool_max_cap",
	"ReleaseTokenSlice:32":   "tokenslice.pool_min_cap",
}

type rewriter struct {
	fset   *token.FileSet
	info   *types.Info
	pkg    *types.Package
	cen    *census
	tmp    int
	shared map[*types.TypeName]bool
	// init and loop statement of the most recent mapRange rewrite (used for labeled loops)
	lastInit ast.Stmt
	lastLoop ast.Stmt
}

func main() {
	flag.Parse()
	if *out == "" {
		fatal("need -out")
	}
	must(os.MkdirAll(*out, 0o755))
	ents, err := os.ReadDir(*src)
	must(err)
	fset := token.NewFileSet()
	var files []*ast.File
	var names []string
	for _, e := range ents {
		n := e.Name()
		if e.IsDir() || !strings.HasSuffix(n, ".go") {
			continue
		}
		if strings.HasSuffix(n, "_test.go") && !*tests {
			continue
		}
		if strings.HasPrefix(n, "zz_verif_") {
			continue
		}
		f, err := parser.ParseFile(fset, filepath.Join(*src, n), nil, parser.ParseComments)
		if err != nil {
			fatal("parse %s: %v", n, err)
		}
		if f.Name.Name != "twig" { // external test packages are not part of the unit
			continue
		}
		files = append(files, f)
		names = append(names, n)
	}
	info := &types.Info{
		Types:      map[ast.Expr]types.TypeAndValue{},
		Uses:       map[*ast.Ident]types.Object{},
		Defs:       map[*ast.Ident]types.Object{},
		Selections: map[*ast.SelectorExpr]*types.Selection{},
	}
	conf := types.Config{Importer: importer.ForCompiler(fset, "source", nil), Error: func(err error) {
		fmt.Fprintln(os.Stderr, "typecheck:", err)
	}}
	pkg, err := conf.Check("github.com/semihalev/twig", fset, files, info)
	if err != nil {
		fatal("package does not type-check: %v", err)
	}
	cen := &census{Rules: map[string]int{}, WithTests: *tests, YieldsInserted: *yields}
	rw := &rewriter{fset: fset, info: info, pkg: pkg, cen: cen, shared: map[*types.TypeName]bool{}}
	rw.findSharedTypes()
	for i, f := range files {
		rw.file(f)
		// comments carry positions that no longer fit the rewritten tree; keep only directives
		var keep []*ast.CommentGroup
		for _, cg := range f.Comments {
			for _, c := range cg.List {
				if strings.HasPrefix(c.Text, "//go:") || strings.HasPrefix(c.Text, "// +build") {
					keep = append(keep, cg)
					break
				}
			}
		}
		f.Comments = keep
		var buf bytes.Buffer
		if err := format.Node(&buf, fset, f); err != nil {
			fatal("print %s: %v", names[i], err)
		}
		must(os.WriteFile(filepath.Join(*out, names[i]), buf.Bytes(), 0o644))
		cen.Files++
	}
	// go.mod / go.sum
	mod, err := os.ReadFile(filepath.Join(*src, "go.mod"))
	must(err)
	abs, _ := filepath.Abs(*simrtDir)
	mod = append(bytes.TrimRight(mod, "\n"), []byte("\n\nrequire simrt v0.0.0\n\nreplace simrt => "+abs+"\n")...)
	must(os.WriteFile(filepath.Join(*out, "go.mod"), mod, 0o644))
	if sum, err := os.ReadFile(filepath.Join(*src, "go.sum")); err == nil {
		must(os.WriteFile(filepath.Join(*out, "go.sum"), sum, 0o644))
	}
	if *export != "" {
		b, err := os.ReadFile(*export)
		must(err)
		must(os.WriteFile(filepath.Join(*out, "zz_verif_export.go"), b, 0o644))
	}
	sort.Strings(cen.Knobs)
	sort.Strings(cen.Skipped)
	js, _ := json.MarshalIndent(cen, "", " ")
	if *censusF != "" {
		must(os.WriteFile(*censusF, js, 0o644))
	} else {
		fmt.Println(string(js))
	}
}

func fatal(f string, a ...interface{}) {
	fmt.Fprintf(os.Stderr, "instrument: "+f+"\n", a...)
	os.Exit(2)
}

func must(err error) {
	if err != nil {
		fatal("%v", err)
	}
}

// findSharedTypes: named struct types whose values are shared between callers: Engine, Environment,
// Template, every type implementing Loader, and every struct with a mutex field.
func (rw *rewriter) findSharedTypes() {
	scope := rw.pkg.Scope()
	var loader *types.Interface
	if o := scope.Lookup("Loader"); o != nil {
		loader, _ = o.Type().Underlying().(*types.Interface)
	}
	for _, n := range scope.Names() {
		tn, ok := scope.Lookup(n).(*types.TypeName)
		if !ok {
			continue
		}
		st, ok := tn.Type().Underlying().(*types.Struct)
		if !ok {
			continue
		}
		sh := n == "Engine" || n == "Environment" || n == "Template"
		if loader != nil && (types.Implements(types.NewPointer(tn.Type()), loader) || types.Implements(tn.Type(), loader)) {
			sh = true
		}
		for i := 0; i < st.NumFields(); i++ {
			if s := st.Field(i).Type().String(); s == "sync.Mutex" || s == "sync.RWMutex" {
				sh = true
			}
		}
		if sh {
			rw.shared[tn] = true
			rw.cen.SharedTypes = append(rw.cen.SharedTypes, n)
		}
	}
	sort.Strings(rw.cen.SharedTypes)
}

func (rw *rewriter) pkgPath(x ast.Expr) string {
	id, ok := x.(*ast.Ident)
	if !ok {
		return ""
	}
	if pn, ok := rw.info.Uses[id].(*types.PkgName); ok {
		return pn.Imported().Path()
	}
	return ""
}

var selMap = map[string]map[string]string{
	"sync":         {"Pool": "Pool", "Mutex": "Mutex", "RWMutex": "RWMutex", "WaitGroup": "WaitGroup", "Cond": "Cond", "NewCond": "NewCond", "Once": "Once"},
	"time":         {"Now": "Now", "Since": "Since", "Sleep": "Sleep"},
	"os":           {"Stat": "OsStat", "ReadFile": "OsReadFile", "WriteFile": "OsWriteFile", "MkdirAll": "OsMkdirAll", "ReadDir": "OsReadDir", "Remove": "OsRemove", "Open": "OsOpen", "Create": "OsCreate", "OpenFile": "OsOpenFile"},
	"maps":         {"Keys": "MapsKeys", "Values": "MapsValues", "All": "MapsAll"},
	"math/rand":    {"Intn": "RandIntn", "Int31": "RandInt31", "Int31n": "RandInt31n", "Int63": "RandInt63", "Int63n": "RandInt63n", "Int": "RandInt", "Float64": "RandFloat64", "Seed": "RandSeed", "Perm": "RandPerm", "Shuffle": "RandShuffle"},
	"math/rand/v2": {"IntN": "Rand2IntN", "Int": "Rand2Int", "Int32": "Rand2Int32", "Int32N": "Rand2Int32N", "Int64": "Rand2Int64", "Int64N": "Rand2Int64N", "Uint32": "Rand2Uint32", "Uint64": "Rand2Uint64", "Float64": "Rand2Float64", "Perm": "Rand2Perm", "Shuffle": "Rand2Shuffle"},
}

func simrtSel(name string) *ast.SelectorExpr {
	return &ast.SelectorExpr{X: ast.NewIdent("simrt"), Sel: ast.NewIdent(name)}
}

func yieldStmt() ast.Stmt {
	return &ast.ExprStmt{X: &ast.CallExpr{Fun: simrtSel("Yield")}}
}

func (rw *rewriter) file(f *ast.File) {
	isTest := strings.HasSuffix(rw.fset.Position(f.Pos()).Filename, "_test.go")
	used := false
	var funcStack []string
	commParent := map[ast.Stmt]bool{}
	ast.Inspect(f, func(n ast.Node) bool {
		if cc, ok := n.(*ast.CommClause); ok && cc.Comm != nil {
			commParent[cc.Comm] = true
		}
		return true
	})
	// 1. expression-level rewrites and map ranges (post-order so inner nodes are done first)
	astutil.Apply(f, func(c *astutil.Cursor) bool {
		if fd, ok := c.Node().(*ast.FuncDecl); ok {
			funcStack = append(funcStack, fd.Name.Name)
		}
		return true
	}, func(c *astutil.Cursor) bool {
		switch n := c.Node().(type) {
		case *ast.FuncDecl:
			funcStack = funcStack[:len(funcStack)-1]
		case *ast.SelectorExpr:
			if p := rw.pkgPath(n.X); p == "time" && !isTest {
				switch n.Sel.Name {
				case "After", "NewTimer", "Tick", "NewTicker", "AfterFunc":
					rw.cen.Skipped = append(rw.cen.Skipped, "time."+n.Sel.Name+" (real timer, not simulated) at "+rw.fset.Position(n.Pos()).String())
				}
			}
			if p := rw.pkgPath(n.X); p != "" {
				if m, ok := selMap[p]; ok {
					if to, ok := m[n.Sel.Name]; ok {
						if isTest && p != "sync" {
							// tests keep the real clock / disk / rand; only the types must match
							return true
						}
						c.Replace(simrtSel(to))
						rw.cen.Rules[p+"."+n.Sel.Name]++
						used = true
					}
				}
			}
		case *ast.CallExpr:
			if sel, ok := n.Fun.(*ast.SelectorExpr); ok && sel.Sel.Name == "MapKeys" && len(n.Args) == 0 {
				if t := rw.info.TypeOf(sel.X); t != nil && t.String() == "reflect.Value" {
					c.Replace(&ast.CallExpr{Fun: simrtSel("MapKeys"), Args: []ast.Expr{sel.X}})
					rw.cen.Rules["reflect.MapKeys"]++
					used = true
				}
			}
			if sel, ok := n.Fun.(*ast.SelectorExpr); ok && (sel.Sel.Name == "Pointer" || sel.Sel.Name == "UnsafeAddr") && len(n.Args) == 0 && !isTest {
				// S8: an address turned into a number
				if t := rw.info.TypeOf(sel.X); t != nil && t.String() == "reflect.Value" {
					c.Replace(&ast.CallExpr{Fun: simrtSel("Value" + sel.Sel.Name), Args: []ast.Expr{sel.X}})
					rw.cen.Rules["reflect."+sel.Sel.Name]++
					used = true
				}
			}
			if sel, ok := n.Fun.(*ast.SelectorExpr); ok && sel.Sel.Name == "Range" && len(n.Args) == 1 && !isTest {
				// S3: sync.Map iteration order
				if t := rw.info.TypeOf(sel.X); t != nil && (t.String() == "sync.Map" || t.String() == "*sync.Map") {
					recv := sel.X
					if t.String() == "sync.Map" {
						recv = &ast.UnaryExpr{Op: token.AND, X: sel.X}
					}
					c.Replace(&ast.CallExpr{Fun: simrtSel("SyncMapRange"), Args: []ast.Expr{recv, n.Args[0]}})
					rw.cen.Rules["sync.Map.Range"]++
					used = true
				}
			}
			if sel, ok := n.Fun.(*ast.SelectorExpr); ok && sel.Sel.Name == "MapRange" && len(n.Args) == 0 {
				if t := rw.info.TypeOf(sel.X); t != nil && t.String() == "reflect.Value" {
					c.Replace(&ast.CallExpr{Fun: simrtSel("MapRange"), Args: []ast.Expr{sel.X}})
					rw.cen.Rules["reflect.MapRange"]++
					used = true
				}
			}
		case *ast.BinaryExpr:
			if len(funcStack) > 0 && !isTest {
				rw.knob(n, funcStack[len(funcStack)-1], &used)
			}
		case *ast.RangeStmt:
			if t := rw.info.TypeOf(n.X); t != nil && !isTest {
				if _, ok := t.Underlying().(*types.Chan); ok {
					if _, lab := c.Parent().(*ast.LabeledStmt); !lab {
						c.Replace(rw.chanRange(n))
						rw.cen.Rules["range-chan"]++
						used = true
						return true
					}
					rw.cen.Skipped = append(rw.cen.Skipped, "labeled channel range at "+rw.fset.Position(n.Pos()).String())
				}
			}
			if t := rw.info.TypeOf(n.X); t != nil {
				if _, ok := t.Underlying().(*types.Map); ok {
					if _, lab := c.Parent().(*ast.LabeledStmt); lab {
						return true // handled when the LabeledStmt itself is visited (the label must stay on the loop)
					}
					c.Replace(rw.mapRange(n))
					rw.cen.Rules["range-map"]++
					used = true
				}
			}
		case *ast.UnaryExpr:
			// `<-ch` outside a select communication clause
			if n.Op == token.ARROW && !isTest {
				if _, inComm := c.Parent().(*ast.CommClause); inComm {
					return true
				}
				if as, ok := c.Parent().(*ast.AssignStmt); ok {
					if _, inComm := commParent[as]; inComm {
						return true
					}
					if len(as.Lhs) == 2 && len(as.Rhs) == 1 {
						c.Replace(&ast.CallExpr{Fun: simrtSel("Recv2"), Args: []ast.Expr{n.X}})
						rw.cen.Rules["chan-recv"]++
						used = true
						return true
					}
				}
				if es, ok := c.Parent().(*ast.ExprStmt); ok {
					if _, inComm := commParent[es]; inComm {
						return true
					}
				}
				if vs, ok := c.Parent().(*ast.ValueSpec); ok && len(vs.Names) == 2 && len(vs.Values) == 1 {
					c.Replace(&ast.CallExpr{Fun: simrtSel("Recv2"), Args: []ast.Expr{n.X}})
					rw.cen.Rules["chan-recv"]++
					used = true
					return true
				}
				c.Replace(&ast.CallExpr{Fun: simrtSel("Recv"), Args: []ast.Expr{n.X}})
				rw.cen.Rules["chan-recv"]++
				used = true
			}
		case *ast.SendStmt:
			if isTest {
				return true
			}
			if _, inComm := commParent[n]; inComm {
				return true
			}
			c.Replace(&ast.ExprStmt{X: &ast.CallExpr{Fun: simrtSel("Send"), Args: []ast.Expr{n.Chan, n.Value}}})
			rw.cen.Rules["chan-send"]++
			used = true
		case *ast.SelectStmt:
			if isTest {
				return true
			}
			if repl, ok := rw.selectLoop(n, c.Parent()); ok {
				c.Replace(repl)
				rw.cen.Rules["select"]++
				used = true
			}
		case *ast.LabeledStmt:
			if rs, ok := n.Stmt.(*ast.RangeStmt); ok {
				if t := rw.info.TypeOf(rs.X); t != nil {
					if _, ok := t.Underlying().(*types.Map); ok {
						if c.Index() < 0 {
							rw.cen.Skipped = append(rw.cen.Skipped, "labeled map range outside a statement list at "+rw.fset.Position(n.Pos()).String())
							return true
						}
						rw.mapRange(rs)
						n.Stmt = rw.lastLoop
						c.InsertBefore(rw.lastInit)
						rw.cen.Rules["range-map"]++
						used = true
					}
				}
			}
		case *ast.GoStmt:
			c.Replace(&ast.ExprStmt{X: &ast.CallExpr{Fun: simrtSel("Go"), Args: []ast.Expr{
				&ast.FuncLit{Type: &ast.FuncType{Params: &ast.FieldList{}}, Body: &ast.BlockStmt{List: []ast.Stmt{&ast.ExprStmt{X: n.Call}}}},
			}}})
			rw.cen.Rules["go-stmt"]++
			used = true
		}
		return true
	})
	// 2. scheduling points
	if *yields && !isTest {
		for _, d := range f.Decls {
			fd, ok := d.(*ast.FuncDecl)
			if !ok || fd.Body == nil || fd.Name.Name == "init" {
				continue
			}
			rw.stmtYields(fd.Body)
			fd.Body.List = append([]ast.Stmt{yieldStmt()}, fd.Body.List...)
			rw.cen.Rules["yield-func-entry"]++
			used = true
		}
	}
	if used {
		astutil.AddImport(rw.fset, f, "simrt")
	}
	for _, p := range []string{"sync", "time", "os", "math/rand", "math/rand/v2", "maps"} {
		if !astutil.UsesImport(f, p) {
			astutil.DeleteImport(rw.fset, f, p)
		}
	}
}

func (rw *rewriter) knob(n *ast.BinaryExpr, fn string, used *bool) {
	switch n.Op {
	case token.LSS, token.GTR, token.LEQ, token.GEQ, token.QUO:
	default:
		return
	}
	for _, side := range []*ast.Expr{&n.X, &n.Y} {
		lit, ok := (*side).(*ast.BasicLit)
		if !ok || lit.Kind != token.INT {
			continue
		}
		name, ok := knobSites[fn+":"+lit.Value]
		if !ok {
			continue
		}
		v, _ := strconv.Atoi(lit.Value)
		*side = &ast.CallExpr{Fun: simrtSel("Knob"), Args: []ast.Expr{
			&ast.BasicLit{Kind: token.STRING, Value: strconv.Quote(name)},
			&ast.BasicLit{Kind: token.INT, Value: strconv.Itoa(v)},
		}}
		rw.cen.Rules["knob"]++
		rw.cen.Knobs = append(rw.cen.Knobs, name)
		*used = true
	}
}

// chanRange rewrites `for v := range ch { body }` into a loop over simrt.Recv2.
func (rw *rewriter) chanRange(n *ast.RangeStmt) ast.Stmt {
	rw.tmp++
	id := strconv.Itoa(rw.tmp)
	ch, v, ok := ast.NewIdent("__ch"+id), ast.NewIdent("__v"+id), ast.NewIdent("__ok"+id)
	pre := []ast.Stmt{
		&ast.AssignStmt{Lhs: []ast.Expr{v, ok}, Tok: token.DEFINE, Rhs: []ast.Expr{&ast.CallExpr{Fun: simrtSel("Recv2"), Args: []ast.Expr{ch}}}},
		&ast.IfStmt{Cond: &ast.UnaryExpr{Op: token.NOT, X: ok}, Body: &ast.BlockStmt{List: []ast.Stmt{&ast.BranchStmt{Tok: token.BREAK}}}},
	}
	if !blank(n.Key) {
		tok := n.Tok
		pre = append(pre, &ast.AssignStmt{Lhs: []ast.Expr{n.Key}, Tok: tok, Rhs: []ast.Expr{v}})
	} else {
		pre = append(pre, &ast.AssignStmt{Lhs: []ast.Expr{ast.NewIdent("_")}, Tok: token.ASSIGN, Rhs: []ast.Expr{v}})
	}
	return &ast.BlockStmt{List: []ast.Stmt{
		&ast.AssignStmt{Lhs: []ast.Expr{ch}, Tok: token.DEFINE, Rhs: []ast.Expr{n.X}},
		&ast.ForStmt{Body: &ast.BlockStmt{List: append(pre, n.Body.List...)}},
	}}
}

// selectLoop turns a blocking select (no default) into a polling loop that yields as blocked:
//
//	__selN: for { select { case …: body; break __selN  …  default: simrt.YieldBlocked() } }
//
// Unlabeled breaks that targeted the select are pointed at the label.
func (rw *rewriter) selectLoop(n *ast.SelectStmt, parent ast.Node) (ast.Stmt, bool) {
	for _, cl := range n.Body.List {
		if cc := cl.(*ast.CommClause); cc.Comm == nil {
			return nil, false // has a default: never blocks
		}
	}
	if _, lab := parent.(*ast.LabeledStmt); lab {
		rw.cen.Skipped = append(rw.cen.Skipped, "labeled select at "+rw.fset.Position(n.Pos()).String())
		return nil, false
	}
	rw.tmp++
	label := ast.NewIdent("__sel" + strconv.Itoa(rw.tmp))
	var retarget func(s ast.Stmt)
	retarget = func(s ast.Stmt) {
		ast.Inspect(s, func(x ast.Node) bool {
			switch b := x.(type) {
			case *ast.ForStmt, *ast.RangeStmt, *ast.SwitchStmt, *ast.TypeSwitchStmt, *ast.SelectStmt, *ast.FuncLit:
				return false
			case *ast.BranchStmt:
				if b.Tok == token.BREAK && b.Label == nil {
					b.Label = ast.NewIdent(label.Name)
				}
			}
			return true
		})
	}
	for _, cl := range n.Body.List {
		cc := cl.(*ast.CommClause)
		for _, st := range cc.Body {
			retarget(st)
		}
		cc.Body = append(cc.Body, &ast.ExprStmt{X: &ast.CallExpr{Fun: simrtSel("Progress")}}, &ast.BranchStmt{Tok: token.BREAK, Label: ast.NewIdent(label.Name)})
	}
	n.Body.List = append(n.Body.List, &ast.CommClause{Body: []ast.Stmt{&ast.ExprStmt{X: &ast.CallExpr{Fun: simrtSel("YieldBlocked")}}}})
	return &ast.LabeledStmt{Label: label, Stmt: &ast.ForStmt{Body: &ast.BlockStmt{List: []ast.Stmt{n}}}}, true
}

func blank(e ast.Expr) bool {
	if e == nil {
		return true
	}
	id, ok := e.(*ast.Ident)
	return ok && id.Name == "_"
}

// mapRange rewrites `for k, v := range m { body }` into a loop over simrt.Keys(m).
// Entries deleted during iteration are skipped, as Go does; entries added during iteration are
// not visited, which Go permits.
func (rw *rewriter) mapRange(n *ast.RangeStmt) ast.Stmt {
	rw.tmp++
	id := strconv.Itoa(rw.tmp)
	m, k, ok := ast.NewIdent("__m"+id), ast.NewIdent("__k"+id), ast.NewIdent("__ok"+id)
	var pre []ast.Stmt
	idx := &ast.IndexExpr{X: m, Index: k}
	valLHS := ast.Expr(ast.NewIdent("_"))
	if !blank(n.Value) {
		valLHS = n.Value
	}
	if n.Tok == token.ASSIGN {
		if !blank(n.Key) {
			pre = append(pre, &ast.AssignStmt{Lhs: []ast.Expr{n.Key}, Tok: token.ASSIGN, Rhs: []ast.Expr{k}})
		}
		pre = append(pre,
			&ast.DeclStmt{Decl: &ast.GenDecl{Tok: token.VAR, Specs: []ast.Spec{&ast.ValueSpec{Names: []*ast.Ident{ok}, Type: ast.NewIdent("bool")}}}},
			&ast.AssignStmt{Lhs: []ast.Expr{valLHS, ok}, Tok: token.ASSIGN, Rhs: []ast.Expr{idx}})
	} else {
		if !blank(n.Key) {
			pre = append(pre, &ast.AssignStmt{Lhs: []ast.Expr{n.Key}, Tok: token.DEFINE, Rhs: []ast.Expr{k}})
		}
		pre = append(pre, &ast.AssignStmt{Lhs: []ast.Expr{valLHS, ok}, Tok: token.DEFINE, Rhs: []ast.Expr{idx}})
	}
	pre = append(pre, &ast.IfStmt{Cond: &ast.UnaryExpr{Op: token.NOT, X: ok}, Body: &ast.BlockStmt{List: []ast.Stmt{&ast.BranchStmt{Tok: token.CONTINUE}}}})
	body := &ast.BlockStmt{List: append(pre, n.Body.List...)}
	loop := &ast.RangeStmt{
		Key: ast.NewIdent("_"), Value: k, Tok: token.DEFINE,
		X:    &ast.CallExpr{Fun: simrtSel("Keys"), Args: []ast.Expr{m}},
		Body: body,
	}
	rw.lastInit = &ast.AssignStmt{Lhs: []ast.Expr{m}, Tok: token.DEFINE, Rhs: []ast.Expr{n.X}}
	rw.lastLoop = loop
	return &ast.BlockStmt{List: []ast.Stmt{rw.lastInit, loop}}
}

// touchesShared reports whether the expressions evaluated by the statement itself (not by nested
// blocks) reference a package-level variable or a field of a shared type.
func (rw *rewriter) touchesShared(s ast.Stmt) bool {
	found := false
	visit := func(n ast.Node) bool {
		if found {
			return false
		}
		switch x := n.(type) {
		case *ast.BlockStmt, *ast.FuncLit:
			return false
		case *ast.Ident:
			if v, ok := rw.info.Uses[x].(*types.Var); ok && !v.IsField() && v.Parent() == rw.pkg.Scope() {
				found = true
			}
		case *ast.SelectorExpr:
			if sel := rw.info.Selections[x]; sel != nil && sel.Kind() == types.FieldVal {
				t := sel.Recv()
				if p, ok := t.(*types.Pointer); ok {
					t = p.Elem()
				}
				if nt, ok := t.(*types.Named); ok && rw.shared[nt.Obj()] {
					found = true
				}
			}
		}
		return true
	}
	switch x := s.(type) {
	case *ast.IfStmt:
		if x.Init != nil {
			ast.Inspect(x.Init, visit)
		}
		ast.Inspect(x.Cond, visit)
	case *ast.ForStmt:
		if x.Init != nil {
			ast.Inspect(x.Init, visit)
		}
		if x.Cond != nil {
			ast.Inspect(x.Cond, visit)
		}
	case *ast.RangeStmt:
		ast.Inspect(x.X, visit)
	case *ast.SwitchStmt:
		if x.Init != nil {
			ast.Inspect(x.Init, visit)
		}
		if x.Tag != nil {
			ast.Inspect(x.Tag, visit)
		}
	case *ast.TypeSwitchStmt:
		ast.Inspect(x.Assign, visit)
	case *ast.BlockStmt, *ast.LabeledStmt, *ast.SelectStmt, *ast.DeclStmt, *ast.EmptyStmt, *ast.BranchStmt:
		return false
	default:
		ast.Inspect(s, visit)
	}
	return found
}

func (rw *rewriter) stmtYields(b *ast.BlockStmt) {
	astutil.Apply(b, func(c *astutil.Cursor) bool {
		if _, ok := c.Node().(*ast.FuncLit); ok {
			return true
		}
		s, ok := c.Node().(ast.Stmt)
		if !ok || c.Index() < 0 {
			return true
		}
		switch s.(type) {
		case *ast.CaseClause, *ast.CommClause:
			return true
		}
		switch c.Parent().(type) {
		case *ast.BlockStmt, *ast.CaseClause:
		default:
			return true
		}
		if es, ok := s.(*ast.ExprStmt); ok {
			if call, ok := es.X.(*ast.CallExpr); ok {
				if sel, ok := call.Fun.(*ast.SelectorExpr); ok {
					if id, ok := sel.X.(*ast.Ident); ok && id.Name == "simrt" && sel.Sel.Name == "Yield" {
						return true
					}
				}
			}
		}
		if rw.touchesShared(s) {
			c.InsertBefore(yieldStmt())
			rw.cen.Rules["yield-shared-stmt"]++
		}
		return true
	}, nil)
}
